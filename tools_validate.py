#!/opt/veriftools/pyvenv/bin/python
"""Validate MANIFEST.json and evidence/*.json against the schemas (run with python3-vt)."""
import json, glob, sys, jsonschema
ok = True
man = json.load(open('/verif/MANIFEST.json'))
jsonschema.validate(man, json.load(open('/root/.vp/MANIFEST.schema.json')))
print("MANIFEST ok")
sch = json.load(open('/root/.vp/EVIDENCE.schema.json'))
for f in sorted(glob.glob('/verif/evidence/*.json')):
    try:
        jsonschema.validate(json.load(open(f)), sch); print("ok", f)
    except Exception as e:
        ok = False; print("BAD", f, str(e)[:300])
sys.exit(0 if ok else 1)
