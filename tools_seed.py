#!/usr/bin/env python3
"""Evaluate one seeded change:  tools_seed.py <mutdir> <worktree> <name> [check ids ...]

 1. apply <mutdir>/patch.diff in the scratch worktree, run the repository's test suite (must pass),
 2. run <mutdir>/demo.py without the change (must pass) and with it (must fail),
 3. run the named checks (default: the property's own) with VERIF_REPO=<worktree> and record which raise VIOLATION,
 4. revert the worktree, and store everything under /verif/seeded/<name>/ (patch.diff, demo.py, meta.json).
Evidence and replay files of these runs go to a temporary directory, never to /verif/evidence.
"""
import json, os, shutil, subprocess, sys, tempfile, time

mutdir, wt, name = sys.argv[1:4]
meta = json.load(open(os.path.join(mutdir, "meta.json"))) if os.path.exists(os.path.join(mutdir, "meta.json")) else {}
if "author_meta" in meta:  # re-evaluation of a change that is already stored under /verif/seeded
    meta = meta["author_meta"]
prop = (meta.get("property") or name.split("_")[0]).upper()
checks = sys.argv[4:] or [prop]
if checks == ["all"]:
    checks = [c["property_id"] for c in json.load(open("/verif/MANIFEST.json"))["checks"]]
env = dict(os.environ, PYTHONPATH=os.path.join(wt, "src"), JAQALPAQ_RUN_EMULATOR="1")
def sh(cmd, cwd=None, env=None, timeout=3600):
    p = subprocess.run(cmd, shell=True, cwd=cwd, env=env, capture_output=True, text=True, timeout=timeout)
    return p.returncode, (p.stdout + p.stderr)
assert sh("git status --short", wt)[1].strip() == "", "worktree not clean"
rc, out = sh("git apply %s" % os.path.join(mutdir, "patch.diff"), wt)
assert rc == 0, out
result = {"name": name, "property": prop, "worktree_head": sh("git rev-parse --short HEAD", wt)[1].strip()}
try:
    rc, out = sh("timeout 1200 /venv/bin/python -m pytest -q -p no:cacheprovider --deselect tests/ipc 2>&1 | tail -3", wt, env)
    result["tests_with_change"] = out.strip().splitlines()[-1] if out.strip() else ""
    result["tests_pass"] = (" passed" in out) and ("failed" not in out) and ("error" not in out.lower().replace("jaqalerror", ""))
    rc0, o0 = sh("timeout 600 /venv/bin/python %s" % os.path.join(mutdir, "demo.py"), "/tmp", dict(os.environ, JAQALPAQ_RUN_EMULATOR="1"))
    rc1, o1 = sh("timeout 600 /venv/bin/python %s" % os.path.join(mutdir, "demo.py"), wt, env)
    result["demo_without_change_rc"] = rc0
    result["demo_with_change_rc"] = rc1
    result["demo_with_change_tail"] = o1.strip().splitlines()[-1][:300] if o1.strip() else ""
    caught = {}
    tmp = tempfile.mkdtemp(prefix="seedev_")
    for cid in checks:
        t0 = time.time()
        e2 = dict(os.environ, VERIF_REPO=wt, VERIF_EVIDENCE_DIR=os.path.join(tmp, "ev"), VERIF_REPLAY_DIR=os.path.join(tmp, "rp"))
        rc, out = sh("timeout 3600 /venv/bin/python run.py %s --tier quick" % cid, "/verif", e2)
        viol = [l for l in out.splitlines() if l.startswith("VIOLATION")]
        first = next((l for l in out.splitlines() if l.strip().startswith("failed clause")), "")
        caught[cid] = {"rc": rc, "violations": len(viol), "first": first.strip()[:400], "wall_s": round(time.time() - t0, 1)}
        if rc == 2:
            caught[cid]["internal"] = out.strip().splitlines()[-3:]
    shutil.rmtree(tmp, ignore_errors=True)
    result["checks"] = caught
finally:
    sh("git checkout -- . && git clean -fdq", wt)
result["author_meta"] = meta
dst = os.path.join("/verif/seeded", name)
os.makedirs(dst, exist_ok=True)
if os.path.abspath(mutdir) != os.path.abspath(dst):
    shutil.copy(os.path.join(mutdir, "patch.diff"), dst)
    shutil.copy(os.path.join(mutdir, "demo.py"), dst)
result["what_i_ran"] = ["git apply patch.diff (scratch worktree)", "pytest -q -p no:cacheprovider --deselect tests/ipc", "demo.py without / with the change",
                        "VERIF_REPO=<worktree> run.py <ID> --tier quick for: " + ",".join(checks)]
json.dump(result, open(os.path.join(dst, "meta.json"), "w"), indent=1)
print(json.dumps({k: v for k, v in result.items() if k != "author_meta"}, indent=1))
