"""C17 - Jaqal text, the builder API and Q-syntax build the same circuit.

Space   : programs in the subset all three front ends express (lets, one register, gates with
          number / let / qubit arguments, nested seq/par blocks, loops over sequential bodies,
          subcircuit blocks, literal or let-valued counts).  A case IS such a program, as the plain
          AST of mc.ref.ast; header items the user leaves anonymous carry a placeholder name
          starting with '?' (never a legal identifier), by which the body refers to them.
          Four pools, each exhaustive inside its bound:
            S-rich   every legally nested statement forest with <= N nodes over three leaf kinds
                     (prepare_all / gate with literal qubit + number / gate with let-indexed qubit
                     + let), loop counts {0, 2, let}, subcircuit counts {none, 0, 3, let}, under a header
                     with an anonymous let, a named let and an anonymous register sized by a let;
            S-plain  the same trees with literal counts under `register q[2]`;
            names    0-3 lets and the register, every one of them anonymous or named from
                     {q, n, __r0, __r1, __c0, __c1}, in every combination (duplicates included),
                     x bodies that use every declared item;
            args     every argument list up to a length over {1, 0.5, -2, int let, float let,
                     R[0], R[1], R[let]} in six syntactic positions, all-named / all-anonymous.
Routes  : Q-syntax (generic @circuit function replaying the AST on Q) is built first; the names it
          generated are read back from the circuit and substituted for the placeholders; then
          Jaqal text -> parse, S-expression -> build(), and the object-oriented CircuitBuilder /
          BlockBuilder calls in two styles (immediate evaluation passing objects on; unevaluated
          passing names) are built from that program, with prepare_all / measure_all added
          exactly when the MODEL says Q-syntax adds them.
Oracle  : every circuit, read through public attributes only, has the structure of the model
          program; circuits are pairwise == in both directions; the implicit wrapping follows
          the model; generated names are fresh and building never fails because of them.
Clauses : <front end>-structure / -rejects          a front end builds something else / nothing
          builder-subcircuit-count-lost             BlockBuilder.subcircuit(n) does not keep n
          builder-subcircuit-default-count          BlockBuilder.subcircuit() is not `subcircuit 1`
          implicit-wrap                             prepare_all/measure_all added when they must
                                                    not be, or not added when they must
          generated-name-collision                  a valid program with anonymous items fails to
                                                    build, and builds once every item is named
          generated-name-not-fresh, qsyntax-declarations, eq-asymmetric,
          eq-false-on-equal-structure, eq-true-on-different-structure, eq-raises, non-termination
Failing cases are reduced in the worker with the same greedy walk the runner uses (memoised per
process; the memo only saves time), so a large failing family reaches the runner as a handful of
distinct minimal programs instead of one shrink job per failing case.
"""
import itertools
import sys

from mc import impl
from mc.combi import TreeGrammar
from mc.framework import Check
from mc.fuel import fuel, OutOfFuel
from mc.ref import ast, render, render_api

NAMES = ("q", "n", "__r0", "__r1", "__c0", "__c1")
SIMPLE_NAMES = ("q", "n", "k", "x")
PREPARE = "prepare_all"
MEASURE = "measure_all"
P_GATE = ("gate", PREPARE, ())
M_GATE = ("gate", MEASURE, ())


def is_anon(name):
    return name.startswith("?")


# ---------------------------------------------------------------- enumeration: statement forests
def _rules(nleaves, nloops, nsubs):
    # contexts: (where, in_sub, in_par); a loop node stands for `loop c { ... }` (the body is
    # always sequential: that is the only loop Q-syntax can write)
    R = {}
    leaves = list(range(nleaves))
    for in_sub in (False, True):
        for in_par in (False, True):
            top = ("top", in_sub, in_par)
            sq = ("seq", in_sub, in_par)
            pr = ("par", in_sub, True)
            stmts = [
                ("gate", leaves, "leaf", None),
                ("par", [None], "many", pr),
                ("loop", list(range(nloops)), "many", sq),
            ]
            if not in_sub and not in_par:
                stmts.append(("sub", list(range(nsubs)), "many", ("seq", True, in_par)))
            R[sq] = list(stmts)
            R[top] = list(stmts) + [("seq", [None], "many", sq)]
    for in_sub in (False, True):
        R[("par", in_sub, True)] = [
            ("gate", leaves, "leaf", None),
            ("seq", [None], "many", ("seq", in_sub, True)),
        ]
    return R


TOP = ("top", False, False)

# alphabets: (header, leaves, loop counts, subcircuit counts)
RICH = (
    (("let", "?c0", 1), ("let", "n", 2), ("register", "?r", "n")),
    (
        P_GATE,
        ("gate", "g", (("item", "?r", 0), 0.5)),
        ("gate", "h", (("item", "?r", "?c0"), "n")),
    ),
    (2, "n"),
    (None, 3, "?c0"),
)
PLAIN = (
    (("register", "q", 2),),
    (
        P_GATE,
        ("gate", "g", (("item", "q", 1), 0.5)),
        ("gate", "h", ()),
    ),
    (0,),  # the boundary counts live here; 2 / 3 / let-valued counts are in RICH
    (None, 0),
)
ALPHABETS = {"rich": RICH, "plain": PLAIN}
GRAMMARS = {k: TreeGrammar(_rules(len(a[1]), len(a[2]), len(a[3]))) for k, a in ALPHABETS.items()}


def forest_to_prog(alpha, forest):
    header, leaves, loops, subs = ALPHABETS[alpha]

    def conv(t):
        k = t[0]
        if k == "gate":
            return leaves[t[1]]
        if k in ("seq", "par"):
            return (k, tuple(conv(c) for c in t[2]))
        if k == "sub":
            return ("sub", subs[t[1]], tuple(conv(c) for c in t[2]))
        if k == "loop":
            return ("loop", loops[t[1]], ("seq", tuple(conv(c) for c in t[2])))
        raise ValueError(t)

    return ("prog", header, tuple(conv(t) for t in forest))


# ---------------------------------------------------------------- enumeration: names and arguments
def names_pool(max_lets, full_last):
    """every naming of k lets + the register; `full_last` = also all bodies/sizes for k = max"""
    choices = (None,) + NAMES
    values = {0: ((),), 1: ((1,), (0.5,)), 2: ((1, 2), (1, 0.5), (1, 1)), 3: ((1, 2, 0.5), (1, 1, 0.5))}  # incl. lets of EQUAL value
    for k in range(0, max_lets + 1):
        lean = k == 3 and not full_last
        for vals in values[k]:
            for names in itertools.product(choices, repeat=k + 1):
                lets = tuple(
                    ("let", names[i] if names[i] is not None else "?c%d" % i, vals[i]) for i in range(k)
                )
                rname = names[k] if names[k] is not None else "?r"
                sizes = [2]
                if not lean:
                    sizes += [l[1] for l in lets if l[2] == 2]
                ints = [l[1] for l in lets if isinstance(l[2], int)]
                for size in sizes:
                    header = lets + (("register", rname, size),)
                    use_all = ("gate", "g", (("item", rname, 0),) + tuple(l[1] for l in lets))
                    bodies = [(use_all,)]
                    if not lean:
                        bodies.insert(0, ())
                        if ints and lets[0][2] == 1:
                            c = ints[-1]
                            bodies.append((
                                ("loop", c, ("seq", (("gate", "g", (("item", rname, lets[0][1]),)),))),
                                ("sub", c, (("gate", "h", ()),)),
                            ))
                    for body in bodies:
                        yield ("prog", header, body)


def args_pool(max_len):
    embeddings = (
        lambda g: (g,),
        lambda g: (("seq", (g,)),),
        lambda g: (("par", (g, ("gate", "h", ()))),),
        lambda g: (("loop", 2, ("seq", (g,))),),
        lambda g: (("sub", None, (g,)),),
        lambda g: (("loop", 2, ("seq", (("par", (("seq", (g,)),)),))),),
    )
    for k, x, r in (("k", "x", "q"), ("?c0", "?c1", "?r")):
        header = (("let", k, 1), ("let", x, 0.5), ("register", r, 2))
        atoms = (1, 0.5, -2, k, x, ("item", r, 0), ("item", r, 1), ("item", r, k))
        for n in range(0, max_len + 1):
            for args in itertools.product(atoms, repeat=n):
                for emb in embeddings:
                    yield ("prog", header, emb(("gate", "g", tuple(args))))


# ---------------------------------------------------------------- the space, as a predicate
def header_info(p):
    """-> (lets {name: value} in order, register name, register size expr) or None"""
    lets = {}
    reg = None
    for h in p[1]:
        if h[0] == "let" and len(h) == 3:
            v = h[2]
            if isinstance(v, bool) or not isinstance(v, (int, float)):
                return None
            if is_anon(h[1]) and h[1] in lets:
                return None
            lets.setdefault(h[1], v)  # a duplicated user name: the program is invalid anyway
        elif h[0] == "register" and len(h) == 3 and reg is None:
            size = h[2]
            if isinstance(size, str):
                if size not in lets or not isinstance(lets[size], int) or lets[size] < 1:
                    return None
            elif isinstance(size, bool) or not isinstance(size, int) or size < 1:
                return None
            reg = (h[1], size)
        else:
            return None
    if reg is None:
        return None
    return lets, reg[0], reg[1]


def legal(p):
    """p is a program of the space (well-formed header, references resolve, indices in range,
    nesting legal in Jaqal text).  Duplicate user names are legal here and *invalid* below."""
    if not (isinstance(p, tuple) and len(p) == 3 and p[0] == "prog"):
        return False
    info = header_info(p)
    if info is None:
        return False
    lets, rname, rsize = info
    size = lets[rsize] if isinstance(rsize, str) else rsize
    strict = valid(p)

    def intref(x, lo, hi=None):
        if isinstance(x, str):
            if x not in lets or not isinstance(lets[x], int):
                return False
            x = lets[x]
        elif isinstance(x, bool) or not isinstance(x, int):
            return False
        if not strict:  # duplicated user names: references are ambiguous, ranges are not judged
            return True
        return x >= lo and (hi is None or x < hi)

    def arg_ok(a):
        if isinstance(a, tuple):
            return len(a) == 3 and a[0] == "item" and a[1] == rname and intref(a[2], 0, size)
        if isinstance(a, str):
            return a in lets
        return not isinstance(a, bool) and isinstance(a, (int, float))

    def ok(s, where, in_sub, in_par):
        k = s[0]
        if k == "gate":
            return isinstance(s[1], str) and all(arg_ok(a) for a in s[2])
        if k == "seq":
            return where in ("top", "par") and all(ok(c, "seq", in_sub, in_par) for c in s[1])
        if k == "par":
            return where in ("top", "seq") and all(ok(c, "par", in_sub, True) for c in s[1])
        if k == "loop":
            return (
                where in ("top", "seq")
                and intref(s[1], 0)
                and s[2][0] == "seq"
                and all(ok(c, "seq", in_sub, in_par) for c in s[2][1])
            )
        if k == "sub":
            return (
                where in ("top", "seq")
                and not in_sub
                and not in_par
                and (s[1] is None or intref(s[1], 0))
                and all(ok(c, "seq", True, in_par) for c in s[2])
            )
        return False

    if not all(ok(s, "top", False, False) for s in p[2]):
        return False
    # an untyped gate gets its arity at first use: one arity per gate name (prepare/measure: none)
    arity = {PREPARE: 0, MEASURE: 0}
    for top in p[2]:
        for s in ast.walk(top):
            if s[0] == "gate" and arity.setdefault(s[1], len(s[2])) != len(s[2]):
                return False
    return True


def user_names(p):
    return [h[1] for h in p[1] if not is_anon(h[1])]


def valid(p):
    u = user_names(p)
    return len(set(u)) == len(u)


# ---------------------------------------------------------------- the model
def model_wrap(body):
    """True: Q-syntax must add prepare_all/measure_all; False: must not; None: the statement does
    not decide (an empty block stands before the first leaf)."""

    def strict(stmts):
        # the first statement, looking through blocks and loops
        if not stmts:
            return None
        s = stmts[0]
        k = s[0]
        if k == "gate":
            return s[1]
        if k == "sub":
            return "<sub>"
        if k == "loop":
            return strict(s[2][1])
        return strict(s[1])

    def lenient(stmts):
        # the first leaf in textual order, empty blocks skipped
        for s in stmts:
            k = s[0]
            if k == "gate":
                return s[1]
            if k == "sub":
                return "<sub>"
            r = lenient(s[2][1] if k == "loop" else s[1])
            if r is not None:
                return r
        return None

    a = strict(body) in (PREPARE, "<sub>")
    b = lenient(body) in (PREPARE, "<sub>")
    if a == b:
        return not a
    return None


def wrapped(p):
    return ("prog", p[1], (P_GATE,) + tuple(p[2]) + (M_GATE,))


def rename(p, mapping):
    def nm(x):
        return mapping.get(x, x) if isinstance(x, str) else x

    def arg(a):
        if isinstance(a, tuple):
            return ("item", nm(a[1]), nm(a[2]))
        return nm(a)

    def st(s):
        k = s[0]
        if k == "gate":
            return ("gate", s[1], tuple(arg(a) for a in s[2]))
        if k in ("seq", "par"):
            return (k, tuple(st(c) for c in s[1]))
        if k == "sub":
            return ("sub", nm(s[1]), tuple(st(c) for c in s[2]))
        if k == "loop":
            return ("loop", nm(s[1]), st(s[2]))
        raise ValueError(s)

    header = tuple((h[0], nm(h[1]), nm(h[2])) for h in p[1])
    return ("prog", header, tuple(st(s) for s in p[2]))


def model_shape(p):
    lets = {h[1]: h[2] for h in p[1] if h[0] == "let"}

    def val(x):
        if isinstance(x, str):
            return ("let", x, lets[x])
        return ("num", x)

    def arg(a):
        if isinstance(a, tuple):
            return ("qubit", a[1], val(a[2]))
        return val(a)

    def st(s):
        k = s[0]
        if k == "gate":
            return ("gate", s[1], tuple(arg(a) for a in s[2]))
        if k in ("seq", "par"):
            return (k, tuple(st(c) for c in s[1]))
        if k == "sub":
            return ("sub", ("num", 1) if s[1] is None else val(s[1]), tuple(st(c) for c in s[2]))
        if k == "loop":
            return ("loop", val(s[1]), st(s[2]))
        raise ValueError(s)

    consts = tuple(sorted(lets.items()))
    regs = tuple(sorted((h[1], val(h[2])) for h in p[1] if h[0] == "register"))
    return (consts, regs, tuple(st(s) for s in p[2]), ())


# ---------------------------------------------------------------- reading the IR (public attributes)
def ir_val(x):
    if isinstance(x, impl.Constant):
        return ("let", x.name, x.value)
    if isinstance(x, impl.NamedQubit):
        return ("qubit", x.alias_from.name, ir_val(x.alias_index))
    if isinstance(x, bool) or not isinstance(x, (int, float)):
        return ("other", type(x).__name__, repr(x)[:60])
    return ("num", x)


def ir_stmt(s):
    if isinstance(s, impl.GateStatement):
        return ("gate", s.name, tuple(ir_val(v) for v in s.parameters.values()))
    if isinstance(s, impl.LoopStatement):
        return ("loop", ir_val(s.iterations), ir_stmt(s.statements))
    if isinstance(s, impl.BlockStatement):
        items = tuple(ir_stmt(c) for c in s.statements)
        if s.subcircuit:
            return ("sub", ir_val(s.iterations), items)
        return ("par" if s.parallel else "seq", items)
    return ("other", type(s).__name__)


def ir_shape(c):
    extras = []
    consts = []
    for k, v in c.constants.items():
        consts.append((k, v.value))
        if v.name != k:
            extras.append(("constant-key", k, v.name))
    regs = []
    for k, r in c.registers.items():
        if isinstance(r, impl.Register) and r.alias_from is None:
            regs.append((k, ir_val(r.size)))
        else:
            regs.append((k, ("alias", type(r).__name__)))
        if r.name != k:
            extras.append(("register-key", k, r.name))
    if c.macros:
        extras.append(("macros", tuple(c.macros)))
    if c.usepulses:
        extras.append(("usepulses", len(c.usepulses)))
    if c.body.parallel or c.body.subcircuit:
        extras.append(("body", c.body.parallel, c.body.subcircuit))
    return (
        tuple(sorted(consts)),
        tuple(sorted(regs)),
        tuple(ir_stmt(s) for s in c.body.statements),
        tuple(extras),
    )


def wild_body(items):
    """statement shapes with every subcircuit count masked"""
    out = []
    for s in items:
        k = s[0]
        if k == "sub":
            out.append(("sub", "*", wild_body(s[2])))
        elif k in ("seq", "par"):
            out.append((k, wild_body(s[1])))
        elif k == "loop" and len(s) == 3 and isinstance(s[2], tuple) and s[2] and s[2][0] in ("seq", "par", "sub"):
            out.append(("loop", s[1], wild_body((s[2],))[0]))
        else:
            out.append(s)
    return tuple(out)


def sub_count_kinds(stmts, shapes, lets, out):
    """stmts (AST) and shapes (IR) are isomorphic; collect which kind of subcircuit count differs"""
    for a, g in zip(stmts, shapes):
        k = a[0]
        if k == "sub":
            if a[1] is None:
                want = ("num", 1)
            elif isinstance(a[1], str):
                want = ("let", a[1], lets[a[1]])
            else:
                want = ("num", a[1])
            if g[1] != want:
                # `subcircuit 1 { }` losing its count is the same symptom as `subcircuit { }`
                out.append(("default" if want == ("num", 1) else "explicit", want, g[1]))
            sub_count_kinds(a[2], g[2], lets, out)
        elif k in ("seq", "par"):
            sub_count_kinds(a[1], g[1], lets, out)
        elif k == "loop":
            sub_count_kinds(a[2][1], g[2][1], lets, out)


def first_diff(e, g, path=""):
    if e == g:
        return None
    if isinstance(e, tuple) and isinstance(g, tuple) and len(e) == len(g):
        for i, (x, y) in enumerate(zip(e, g)):
            d = first_diff(x, y, "%s/%d" % (path, i))
            if d:
                return d
    return "at %s: required %r, found %r" % (path or "/", e, g)


def compare_shape(frontend, got, want, prog):
    """-> list of (clause, detail) explaining got != want; empty if equal"""
    if got == want:
        return []
    if got[0] == want[0] and got[1] == want[1] and got[3] == want[3] and wild_body(got[2]) == wild_body(want[2]):
        lets = {h[1]: h[2] for h in prog[1] if h[0] == "let"}
        kinds = []
        sub_count_kinds(prog[2], got[2], lets, kinds)
        out = []
        for kind, clause in (("explicit", "subcircuit-count-lost"), ("default", "subcircuit-default-count")):
            hit = [(w, g) for k, w, g in kinds if k == kind]
            if hit:
                out.append((
                    "%s-%s" % (frontend, clause),
                    "subcircuit count: required %r, found %r" % hit[0],
                ))
        if out:
            return out
    return [("%s-structure" % frontend, first_diff(want, got) or "shapes differ")]


# ---------------------------------------------------------------- names
def fresh_names(p):
    """model-chosen names for the anonymous items (used only when Q-syntax gave none)"""
    used = set(user_names(p))
    mapping = {}
    i = 0
    for h in p[1]:
        if is_anon(h[1]):
            while "zz%d" % i in used:
                i += 1
            mapping[h[1]] = "zz%d" % i
            used.add("zz%d" % i)
    return mapping


def read_back(qc, p):
    """placeholder -> the name Q-syntax generated, read from the built circuit.
    -> (mapping, problems)"""
    problems = []
    mapping = {}
    consts = [(k, v.value) for k, v in qc.constants.items()]
    regs = list(qc.registers.keys())
    for h in p[1]:
        if h[0] == "let" and not is_anon(h[1]):
            hit = [c for c in consts if c[0] == h[1] and c[1] == h[2]]
            if hit:
                consts.remove(hit[0])
            else:
                problems.append("user let %s = %r is not among the constants %r" % (h[1], h[2], consts))
        elif h[0] == "register" and not is_anon(h[1]):
            if h[1] in regs:
                regs.remove(h[1])
            else:
                problems.append("user register %s is not among the registers %r" % (h[1], regs))
    for h in p[1]:
        if h[0] == "let" and is_anon(h[1]):
            hit = [c for c in consts if c[1] == h[2] and type(c[1]) is type(h[2])] or [c for c in consts if c[1] == h[2]]
            if hit:
                consts.remove(hit[0])
                mapping[h[1]] = hit[0][0]
            else:
                problems.append("no generated constant with value %r (left: %r)" % (h[2], consts))
        elif h[0] == "register" and is_anon(h[1]):
            if regs:
                mapping[h[1]] = regs.pop(0)
            else:
                problems.append("no generated register")
    if consts or regs:
        problems.append("unexpected declarations %r %r" % (consts, regs))
    return mapping, problems


def node_count(p):
    return sum(ast.node_count(s) for s in p[2])


def compact(p):
    """one-line Jaqal-like rendering; anonymous items keep their '?' placeholder"""

    def st(s):
        k = s[0]
        if k == "gate":
            return " ".join((s[1],) + tuple(render.arg_text(a) for a in s[2]))
        if k == "seq":
            return "{ %s }" % "; ".join(st(c) for c in s[1]) if s[1] else "{ }"
        if k == "par":
            return "< %s >" % " | ".join(st(c) for c in s[1]) if s[1] else "< >"
        if k == "sub":
            head = "subcircuit " + ("" if s[1] is None else "%s " % render.arg_text(s[1]))
            return head + ("{ %s }" % "; ".join(st(c) for c in s[2]) if s[2] else "{ }")
        if k == "loop":
            return "loop %s %s" % (render.arg_text(s[1]), st(s[2]))
        raise ValueError(s)

    return "; ".join([render.header_text(h) for h in p[1]] + [st(s) for s in p[2]])


class _NullCtx:
    def trace(self, n=1):
        pass

    state = transition = outcome = nontriv = count = trace

    def fail(self, *a, **k):
        pass


# ---------------------------------------------------------------- the check
class C17(Check):
    id = "C17"
    nshards = 96
    rule = (
        "programs of the common subset (lets, one register, gates with number/let/qubit arguments, seq/par "
        "nesting, loops over sequential bodies, subcircuits, literal or let counts): all legally nested forests "
        "<= N nodes over 3 leaf kinds under a header mixing anonymous and named items and under a plain header; "
        "0-3 lets + register each anonymous or named from {q,n,__r0,__r1,__c0,__c1} in every combination; every "
        "argument list up to a length in 6 positions. non-trivial = the body contains a block, loop or "
        "subcircuit, or the header mixes anonymous items with user names; distinct by canonical text"
    )
    assumptions = (
        "a body 'begins with a prepare or a subcircuit' iff its first leaf in textual order, looking through "
        "sequential/parallel blocks and loops, is the gate prepare_all or a subcircuit block; when an empty "
        "block stands before that leaf the statement is read as not deciding and either behaviour is accepted",
        "'subcircuit { }' and 'subcircuit 1 { }' are the same program (count 1)",
        "which fresh names are generated is not judged: they are read back from the Q-syntax circuit (matching "
        "anonymous lets by value) and used in the other renderings; only freshness and equality are judged",
        "programs whose user-chosen names collide with each other are not programs: only their outcome class "
        "is recorded, no front end is required to reject them in a particular way",
        "numbers are compared by value; loops are 'loop c { ... }' (the only loop Q-syntax writes); the "
        "object-oriented builder is exercised in two styles (immediate evaluation passing objects on, "
        "unevaluated=True passing names); both must agree with the text",
        "gate names g, h, prepare_all, measure_all, each used with one arity (an untyped gate gets its arity "
        "at first use in every front end); register size 2 (or 1 after shrinking); let values 1, 2, 0.5; "
        "qubit indices and counts are in range, so every program of the space is a valid Jaqal program",
        "every build runs under a deterministic fuel budget of 20000 + 4000 x (nodes + header items + 4)",
    )

    def bounds(self, tier):
        q = tier == "quick"
        return {
            "rich_max_nodes": 4 if q else 5,
            "plain_max_nodes": 4 if q else 5,
            "names_max_lets": 3,
            "names_three_lets_all_bodies": not q,
            "args_max_len": 2 if q else 3,
            "user_names": list(NAMES),
        }

    # cases are produced lazily; only the cases of a shard are converted to programs
    def _raw(self, tier):
        b = self.bounds(tier)
        top = max(b["rich_max_nodes"], b["plain_max_nodes"])
        for n in range(0, top + 1):
            for alpha in ("plain", "rich"):
                if n <= b["%s_max_nodes" % alpha]:
                    for f in GRAMMARS[alpha].iter_forests(n, TOP):
                        yield (alpha, f)
            if n == 1:
                for p in names_pool(b["names_max_lets"], b["names_three_lets_all_bodies"]):
                    yield p
                for p in args_pool(b["args_max_len"]):
                    yield p

    @staticmethod
    def _case(raw):
        if raw[0] == "prog":
            return raw
        return forest_to_prog(raw[0], raw[1])

    def all_cases(self, tier):
        return map(self._case, self._raw(tier))

    def cases(self, tier, shard):
        return map(self._case, itertools.islice(self._raw(tier), shard, None, self.nshards))

    def show(self, case):
        return compact(case)

    def selfcheck(self):
        P, G = P_GATE, ("gate", "g", ())
        table = (
            ((), True),
            ((G,), True),
            ((P,), False),
            ((P, G), False),
            ((G, P), True),
            ((("sub", None, ()),), False),
            ((("seq", (P,)),), False),
            ((("loop", 2, ("seq", (("par", (P, G)),))),), False),
            ((("loop", 2, ("seq", (G, P))),), True),
            ((("par", (G, P)),), True),
            ((("seq", ()), P), None),
            ((("seq", ()), G), True),
            ((("loop", 2, ("seq", (("par", ()), ("sub", 3, ())))),), None),
            ((("seq", (G,)), ("sub", None, ())), True),
        )
        for body, want in table:
            assert model_wrap(body) is want, (body, want, model_wrap(body))
        for alpha in ALPHABETS:
            for n in range(0, 4):
                for f in GRAMMARS[alpha].iter_forests(n, TOP):
                    p = forest_to_prog(alpha, f)
                    assert legal(p) and valid(p), p
        n = 0
        for p in itertools.chain(names_pool(2, False), args_pool(1)):
            assert legal(p), p
            n += 1
        assert n > 100
        p = ("prog", RICH[0], (("sub", "?c0", (RICH[1][2],)),))
        m = {"?c0": "a", "?r": "b"}
        assert model_shape(rename(p, m)) == (
            (("a", 1), ("n", 2)),
            (("b", ("let", "n", 2)),),
            (("sub", ("let", "a", 1), (("gate", "h", (("qubit", "b", ("let", "a", 1)), ("let", "n", 2))),)),),
            (),
        )

    # ------------------------------------------------------------ shrinking
    def shrink(self, case):
        seen = set()

        def emit(c):
            if c != case and c not in seen and legal(c):
                seen.add(c)
                return True
            return False

        for c in ast.shrink_program(case):
            if emit(c):
                yield c
        _, header, body = case
        # splice the children of any block / loop / subcircuit into its parent
        for b in _splices(body):
            c = ("prog", header, b)
            if emit(c):
                yield c
        lets = {h[1]: h[2] for h in header if h[0] == "let"}
        # replace every use of one let by its value
        for name, value in lets.items():
            c = _inline(case, name, value)
            if emit(c):
                yield c
        # names: anonymous or auto-namer-like -> a plain name
        used = set(h[1] for h in header)
        for i, h in enumerate(header):
            if is_anon(h[1]) or h[1] not in SIMPLE_NAMES:
                for cand in SIMPLE_NAMES:
                    if cand not in used:
                        c = _rename_item(case, i, cand)
                        if emit(c):
                            yield c
                        break
            elif h[1] in SIMPLE_NAMES:
                for cand in SIMPLE_NAMES[: SIMPLE_NAMES.index(h[1])]:
                    if cand not in used:
                        c = _rename_item(case, i, cand)
                        if emit(c):
                            yield c
                        break
        # plain user names in canonical positions: register q, lets n k x
        targets = iter(("n", "k", "x"))
        canon_map = {}
        for h in header:
            if h[1] in SIMPLE_NAMES:
                canon_map[h[1]] = "q" if h[0] == "register" else next(targets)
        if any(k != v for k, v in canon_map.items()) and len(canon_map) == len(
            [h for h in header if h[1] in SIMPLE_NAMES]
        ):
            tmp = rename(case, {k: v + "'" for k, v in canon_map.items()})
            c = rename(tmp, {v + "'": v for v in canon_map.values()})
            if emit(c):
                yield c
        # one gate name
        c = _rename_gates(case, "h", "g")
        if emit(c):
            yield c
        # a user name of the auto-namer's form -> an earlier name of the alphabet
        for i, h in enumerate(header):
            if h[1] in NAMES:
                for cand in NAMES[: NAMES.index(h[1])]:
                    if cand not in used:
                        c = _rename_item(case, i, cand)
                        if emit(c):
                            yield c
        # placeholders numbered in order of declaration
        want = {}
        for h in header:
            if is_anon(h[1]) and h[0] == "let":
                want[h[1]] = "?c%d" % len(want)
        if any(k != v for k, v in want.items()):
            tmp = rename(case, {k: v + "'" for k, v in want.items()})
            c = rename(tmp, {v + "'": v for v in want.values()})
            if emit(c):
                yield c
        # let values -> 1
        for i, h in enumerate(header):
            if h[0] == "let" and not (isinstance(h[2], int) and h[2] == 1):
                c = ("prog", header[:i] + (("let", h[1], 1),) + header[i + 1:], body)
                if emit(c):
                    yield c
        # smaller register
        for i, h in enumerate(header):
            if h[0] == "register" and isinstance(h[2], int) and h[2] > 1:
                c = ("prog", header[:i] + (("register", h[1], 1),) + header[i + 1:], body)
                if emit(c):
                    yield c
        # literal qubit index 1 -> 0, subcircuit/loop literal counts -> smaller
        for c in _simplify_literals(case):
            if emit(c):
                yield c

    # ------------------------------------------------------------ one case
    _memo = {}     # small program -> frozenset of failing clauses (speed only; pure function)
    _minimal = {}  # (clause, program) -> local minimum reached by greedy shrinking
    MEMO_CAP = 60000

    def run_case(self, case, ctx):
        fails = self._evaluate(case, ctx)
        for clause, detail in fails.items():
            # reduce in the worker (memoised, same greedy walk as the runner's shrinker) so that
            # a large failing family reaches the runner as a handful of distinct small cases
            ctx.fail(clause, detail, case=self._minimise(case, clause))

    def _clauses(self, case):
        r = self._memo.get(case)
        if r is None:
            if len(self._memo) > self.MEMO_CAP:
                self._memo.clear()
            r = frozenset(self._evaluate(case, _NullCtx()))
            self._memo[case] = r
        return r

    _work = [0]  # candidate evaluations spent on minimising in this process
    WORK_CAP = 40000  # beyond this, failing cases are reported as they are (mass failures: the runner caps too)

    def _minimise(self, case, clause, budget=300):
        if self._work[0] > self.WORK_CAP:
            return case
        path = []
        cur = case
        steps = 0
        while True:
            done = self._minimal.get((clause, cur))
            if done is not None:
                cur = done
                break
            path.append(cur)
            nxt = None
            for cand in self.shrink(cur):
                steps += 1
                self._work[0] += 1
                if steps > budget:
                    break
                if clause in self._clauses(cand):
                    nxt = cand
                    break
            if nxt is None:
                break
            cur = nxt
        if steps <= budget:  # a walk cut short by the budget is not recorded as a minimum
            if len(self._minimal) > self.MEMO_CAP:
                self._minimal.clear()
            for c in path:
                self._minimal[(clause, c)] = cur
        return cur

    def _evaluate(self, case, ctx):
        """-> {clause: detail} for one program; counters go to ctx"""
        p0 = case
        if not legal(p0):
            raise ValueError("case outside the space: %r" % (p0,))
        fails = {}

        def fail(clause, detail):
            fails.setdefault(clause, detail)

        anon = [h[1] for h in p0[1] if is_anon(h[1])]
        users = user_names(p0)
        budget = 20000 + 4000 * (node_count(p0) + len(p0[1]) + 4)

        def attempt(fn):
            ctx.trace()
            try:
                with fuel(budget):
                    return ("ok", fn())
            except OutOfFuel:
                return ("hang", "fuel %d exhausted" % budget)
            except impl.JaqalError as e:
                return ("JaqalError", str(e)[:200])
            except Exception as e:  # noqa: BLE001
                return ("crash", "%s: %s" % (type(e).__name__, str(e)[:200]))

        mw = model_wrap(p0[2])

        # ---- programs whose user names collide with each other: outcome only
        if not valid(p0):
            p1 = rename(p0, fresh_names(p0))
            pw = wrapped(p1) if mw is not False else p1
            res = [
                attempt(lambda: render_api.qsyntax_build(p0, anon)),
                attempt(lambda: impl.parse(render.text(pw))),
                attempt(lambda: impl.build(render.sexpr(pw))),
                attempt(lambda: render_api.oo_build(pw, "obj")),
                attempt(lambda: render_api.oo_build(pw, "str")),
            ]
            ctx.transition(len(res))
            acc = sum(1 for r in res if r[0] == "ok")
            ctx.outcome(
                "invalid:rejected-by-all" if acc == 0 else
                "invalid:accepted-by-all" if acc == len(res) else "invalid:accepted-by-some"
            )
            return fails

        if (anon and users) or any(s[0] != "gate" for s in p0[2]):
            ctx.nontriv(render.text(p0))

        # ---- Q-syntax first
        rq = attempt(lambda: render_api.qsyntax_build(p0, anon))
        qc = None
        if rq[0] == "ok":
            qc = rq[1]
            mapping, problems = read_back(qc, p0)
            if problems:
                fail("qsyntax-declarations", "; ".join(problems))
                mapping = fresh_names(p0)
                qc = None
            else:
                gen = list(mapping.values())
                allnames = gen + users
                if len(set(allnames)) != len(allnames):
                    fail("generated-name-not-fresh", "generated %r, user-chosen %r" % (gen, users))
        else:
            mapping = fresh_names(p0)
            if rq[0] == "hang":
                fail("non-termination", "Q-syntax: " + rq[1])
            elif anon:
                # same program with the anonymous items given model-chosen fresh names
                r2 = attempt(lambda: render_api.qsyntax_build(rename(p0, mapping), ()))
                if r2[0] == "ok":
                    fail(
                        "generated-name-collision",
                        "Q-syntax fails with %s (%s) on a valid program with user names %r and %d anonymous "
                        "item(s); the same program with every item named builds" % (rq[0], rq[1], users, len(anon)),
                    )
                else:
                    fail("qsyntax-rejects", "%s: %s" % rq)
            else:
                fail("qsyntax-rejects", "%s: %s" % rq)

        p1 = rename(p0, mapping)
        pw = wrapped(p1)
        want_w = model_shape(pw)
        want_u = model_shape(p1)

        did = None
        sq = None
        if qc is not None:
            sq = ir_shape(qc)
            if sq == want_w:
                did = True
            elif sq == want_u:
                did = False
            if did is None:
                # not one of the two programs: explain against the one the model asks for
                # (for undecided wrapping: against the nearer one)
                if mw is None:
                    ref_w = len(sq[2]) == len(want_w[2])
                else:
                    ref_w = mw
                for cl, det in compare_shape("qsyntax", sq, want_w if ref_w else want_u, pw if ref_w else p1):
                    # a wrong wrapping decision shows up as a structure difference: say so
                    alt = want_u if ref_w else want_w
                    if cl == "qsyntax-structure" and mw is not None and _same_modulo_counts(sq, alt):
                        cl = "implicit-wrap"
                    fail(cl, det)
            elif mw is not None and did != mw:
                fail(
                    "implicit-wrap",
                    "the body %s with a prepare or a subcircuit, so prepare_all/measure_all must %sbe added; "
                    "Q-syntax %s them" % (
                        "does not begin" if mw else "begins", "" if mw else "not ",
                        "added" if did else "did not add"),
                )
        if qc is None:
            ctx.outcome("qsyntax-build-failed")
        elif did is None:
            ctx.outcome("qsyntax-other-structure")
        else:
            ctx.outcome(("wrapped" if did else "not-wrapped") + ("" if mw is not None else " (undecided by the statement)"))

        # ---- the reference program for the other front ends
        if mw is not None:
            ref_wrap = mw
        elif did is not None:
            ref_wrap = did
        else:
            ref_wrap = True
        pref = pw if ref_wrap else p1
        want = want_w if ref_wrap else want_u
        text = render.text(pref)
        ctx.state(text)

        built = []  # (label, circuit, shape)
        if qc is not None:
            built.append(("qsyntax", qc, sq))
        routes = (
            ("text", "text", lambda: impl.parse(text)),
            ("sexpr", "sexpr", lambda: impl.build(render.sexpr(pref))),
            ("builder", "builder(objects)", lambda: render_api.oo_build(pref, "obj")),
            ("builder", "builder(names)", lambda: render_api.oo_build(pref, "str")),
        )
        for fe, label, fn in routes:
            r = attempt(fn)
            if r[0] == "ok":
                try:
                    sh = ir_shape(r[1])
                except Exception as e:  # noqa: BLE001
                    fail("%s-structure" % fe, "%s: cannot read the circuit: %s: %s" % (label, type(e).__name__, e))
                    continue
                built.append((label, r[1], sh))
                for cl, det in compare_shape(fe, sh, want, pref):
                    fail(cl, "%s: %s" % (label, det))
            elif r[0] == "hang":
                fail("non-termination", "%s: %s" % (label, r[1]))
            else:
                fail("%s-rejects" % fe, "%s: %s: %s" % (label, r[0], r[1]))
        ctx.transition(1 + len(routes))

        # ---- pairwise equality, both directions
        for (la, ca, sa), (lb, cb, sb) in itertools.combinations(built, 2):
            try:
                e1 = bool(ca == cb)
                e2 = bool(cb == ca)
            except Exception as e:  # noqa: BLE001
                fail("eq-raises", "%s == %s: %s: %s" % (la, lb, type(e).__name__, e))
                continue
            if e1 != e2:
                fail("eq-asymmetric", "%s == %s is %s but %s == %s is %s" % (la, lb, e1, lb, la, e2))
            if sa == sb and not (e1 and e2):
                fail("eq-false-on-equal-structure", "%s and %s have the same structure %r but compare unequal" % (la, lb, sa))
            if sa != sb and (e1 or e2):
                fail("eq-true-on-different-structure", "%s and %s compare equal; %s" % (la, lb, first_diff(sa, sb)))

        shown = compact(pref)
        return {clause: "%s | built: %s" % (detail, shown) for clause, detail in fails.items()}


def _same_modulo_counts(a, b):
    return a[0] == b[0] and a[1] == b[1] and a[3] == b[3] and wild_body(a[2]) == wild_body(b[2])


# ---------------------------------------------------------------- shrink helpers
def _map_refs(p, fn):
    """apply fn to every let reference position (register size, counts, indices, bare arguments)"""

    def arg(a):
        if isinstance(a, tuple):
            return ("item", a[1], fn(a[2]))
        return fn(a)

    def st(s):
        k = s[0]
        if k == "gate":
            return ("gate", s[1], tuple(arg(a) for a in s[2]))
        if k in ("seq", "par"):
            return (k, tuple(st(c) for c in s[1]))
        if k == "sub":
            return ("sub", fn(s[1]), tuple(st(c) for c in s[2]))
        return ("loop", fn(s[1]), st(s[2]))

    header = tuple((h[0], h[1], fn(h[2])) if h[0] == "register" else h for h in p[1])
    return ("prog", header, tuple(st(s) for s in p[2]))


def _kids(s):
    k = s[0]
    if k in ("seq", "par"):
        return s[1]
    if k == "sub":
        return s[2]
    if k == "loop":
        return s[2][1]
    return None


def _with_kids(s, kids):
    k = s[0]
    if k in ("seq", "par"):
        return (k, kids)
    if k == "sub":
        return ("sub", s[1], kids)
    return ("loop", s[1], ("seq", kids))


def _splices(items):
    """every statement list obtained by replacing one nested node by its children"""
    for i, s in enumerate(items):
        kids = _kids(s)
        if kids is None:
            continue
        yield items[:i] + tuple(kids) + items[i + 1:]
        for v in _splices(kids):
            yield items[:i] + (_with_kids(s, v),) + items[i + 1:]


def _rename_gates(p, old, new):
    def st(s):
        k = s[0]
        if k == "gate":
            return ("gate", new if s[1] == old else s[1], s[2])
        if k in ("seq", "par"):
            return (k, tuple(st(c) for c in s[1]))
        if k == "sub":
            return ("sub", s[1], tuple(st(c) for c in s[2]))
        return ("loop", s[1], st(s[2]))

    return ("prog", p[1], tuple(st(s) for s in p[2]))


def _inline(p, name, value):
    return _map_refs(p, lambda x: value if isinstance(x, str) and x == name else x)


def _rename_item(p, i, new):
    old = p[1][i][1]
    # names are unique in valid programs (the only ones that can fail and hence be shrunk)
    if sum(1 for h in p[1] if h[1] == old) != 1:
        return p
    return rename(p, {old: new})


def _simplify_literals(p):
    _, header, body = p

    def variants(s):
        k = s[0]
        if k == "gate":
            for i, a in enumerate(s[2]):
                if isinstance(a, tuple) and isinstance(a[2], int) and a[2] > 0:
                    yield ("gate", s[1], s[2][:i] + (("item", a[1], 0),) + s[2][i + 1:])
        elif k in ("seq", "par"):
            for i, c in enumerate(s[1]):
                for v in variants(c):
                    yield (k, s[1][:i] + (v,) + s[1][i + 1:])
        elif k == "sub":
            if (isinstance(s[1], int) and s[1] > 2) or isinstance(s[1], str):
                yield ("sub", 2, s[2])
            for i, c in enumerate(s[2]):
                for v in variants(c):
                    yield ("sub", s[1], s[2][:i] + (v,) + s[2][i + 1:])
        elif k == "loop":
            for v in variants(s[2]):
                yield ("loop", s[1], v)

    for i, s in enumerate(body):
        for v in variants(s):
            yield ("prog", header, body[:i] + (v,) + body[i + 1:])


CHECK = C17()

if __name__ == "__main__":
    for tier in ("quick", "thorough"):
        n = 0
        for _ in CHECK._raw(tier):
            n += 1
        print(tier, n)
        sys.stdout.flush()
