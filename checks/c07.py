"""C07 - identifiers resolve lexically; statement meaning ignores unrelated statements.

Space : one probe statement text (10 forms using the colliding names `a` and `n`: as argument,
        as array name, as array index, as loop count, as subcircuit count, passed to a macro, inside an
        index passed to a macro whose own parameter is called n) placed in every
        set of 2-4 (thorough 5) scopes out of {main body before the macros, main body after them, macro
        with a parameter of the colliding name, macro with other parameters, loop body,
        parallel block} x the header binding of `a` (let / fundamental register / strided alias
        / single-qubit alias / none) x both textual orders of the macro definitions and of the
        main-body statements.
Oracle: for the program and for every sub-program obtained by deleting one body item
        (differential: the meaning of a statement must not depend on unrelated statements):
        the symbolic form read from the parsed IR equals the model's (named references:
        parameter vs let vs register), and the denotation equals the model's under both
        readings of a macro call, also after expand_macros and after fill_in_let; the same program
        handed to the builder as an S-expression made of lists and made of tuples gives the same
        named references and denotation as the parsed text.
"""
import itertools

from mc import impl
from mc.framework import Check
from mc.ref import render, abstraction, ast as A, universe as U
from mc.ref.meaning import Model, Invalid

HEADERS = {
    "let": (("let", "a", 1), ("let", "n", 0), ("register", "q", 3)),
    "reg": (("let", "n", 0), ("register", "a", 3), ("map", "q", "a")),
    "alias": (("let", "n", 0), ("register", "q", 3), ("map", "a", "q", 1, 3, None)),
    "single": (("let", "n", 0), ("register", "q", 3), ("map", "a", "q", 2)),
    "none": (("let", "n", 0), ("register", "q", 3)),
}

PROBES = {
    "arg": A.gate("g", "a"),
    "index": A.gate("g", A.item("q", "a")),
    "array": A.gate("g", A.item("a", 0)),
    "array-let": A.gate("g", A.item("a", "n")),
    "let-arg": A.gate("g", "n", "a"),
    "call": A.gate("mm", "a"),
    "loop": A.loop("n", A.seq(A.gate("g", "a"))),
    "index-n": A.gate("g", A.item("q", "n")),
    "sub": A.sub("n", A.gate("g", "a")),
    "call-index": A.gate("mm", A.item("q", "n"), "a"),
}

# arguments with which the shadowing macro `ms a n` is called so that the probe is valid there
SHADOW_ARGS = {
    "arg": [(A.item("q", 0), 1), (2.5, 1)],
    "index": [(2, 1)],
    "array": [("q", 1)],
    "array-let": [("q", 2)],
    "let-arg": [(A.item("q", 1), 7)],
    "call": [(A.item("q", 0), 1)],
    "loop": [(A.item("q", 0), 2)],
    "index-n": [(A.item("q", 0), 2), (1.5, 1)],
    "sub": [(A.item("q", 1), 2)],
    "call-index": [(A.item("q", 1), 2)],
}

SCOPES = ("main-before", "main-after", "shadow-macro", "other-macro", "loop", "par")
MM = A.macro("mm", ("z",), A.seq(A.gate("h", "z")))
MM2 = A.macro("mm", ("z", "n"), A.seq(A.gate("h", "z", "n")))  # its own parameter n shadows the let n


def build_program(binding, probe_name, scopes, shadow_arg, macro_order, body_order):
    """-> program AST or None"""
    probe = PROBES[probe_name]
    header = HEADERS[binding]
    macros = []
    if probe_name == "call":
        macros.append(MM)
    if probe_name == "call-index":
        macros.append(MM2)
    defs = []
    calls = []
    before = []
    after = []
    blockable = probe[0] == "gate"
    for sc in scopes:
        if sc == "main-before":
            before.append(probe)
        elif sc == "main-after":
            after.append(probe)
        elif sc == "shadow-macro":
            # k2 q[0] names a header register / alias that is NOT shadowed: it must keep its header meaning
            defs.append(A.macro("ms", ("a", "n"), A.seq(probe, A.gate("k", "n"), A.gate("k2", A.item("q", 0)))))
            calls.append(A.gate("ms", *shadow_arg))
        elif sc == "other-macro":
            defs.append(A.macro("mo", ("b",), A.seq(A.gate("k", "b"), probe)))
            calls.append(A.gate("mo", 7))
        elif sc == "loop":
            after.append(A.loop(2, A.seq(probe)))
        elif sc == "par":
            if not blockable:
                return None
            after.append(A.par(probe, A.gate("k", 1)))
    if macro_order:
        defs = defs[::-1]
    tail = calls + after
    if body_order:
        tail = tail[::-1]
    body = tuple(macros) + tuple(before) + tuple(defs) + tuple(tail)
    return A.prog(header, body)


def all_programs(tier, only=None):
    seen = set()
    sizes = (2, 3, 4, 5) if tier != "quick" else (2, 3, 4)
    for binding in HEADERS:
        for pname in PROBES:
            if only is not None and (binding, pname) != tuple(only):
                continue
            for r in sizes:
                for scopes in itertools.combinations(SCOPES, r):
                    for sarg in SHADOW_ARGS[pname] if "shadow-macro" in scopes else [None]:
                        for mo in (0, 1):
                            for bo in (0, 1):
                                p = build_program(binding, pname, scopes, sarg, mo, bo)
                                if p is None:
                                    continue
                                t = render.text(p)
                                if t in seen:
                                    continue
                                seen.add(t)
                                if U.valid(p):
                                    yield p


def _as_lists(x):
    return [_as_lists(v) for v in x] if isinstance(x, (list, tuple)) else x


def _as_tuples(x):
    return tuple(_as_tuples(v) for v in x) if isinstance(x, (list, tuple)) else x


def subprograms(p):
    yield p
    _, header, body = p
    for i in range(len(body)):
        q = ("prog", header, body[:i] + body[i + 1:])
        if U.valid(q):
            yield q


class C07(Check):
    id = "C07"
    nshards = 32
    rule = (
        "probe text (10 forms) x sets of 2-4 (thorough 5) scopes out of 6 x header binding of the colliding name (5) x "
        "arguments of the shadowing macro x both orders of macro definitions and of main-body statements, "
        "kept when the model finds the program valid; each with all its single-deletion sub-programs; "
        "non-trivial = the probe occurs in a macro that shadows the name AND in another scope"
    )
    assumptions = (
        "anonymous gates; a call of a name that is defined as a macro later in the text is outside the space "
        "(the builder rejects it)",
    )

    def bounds(self, tier):
        return {"scopes_per_program": [2, 3, 4] if tier == "quick" else [2, 3, 4, 5], "probes": len(PROBES), "bindings": len(HEADERS)}

    def all_cases(self, tier):
        return all_programs(tier)

    # one shard per (header binding, probe): a shard enumerates (and validates) only its own programs
    def shards(self, tier):
        return [(b, pn) for b in HEADERS for pn in PROBES]

    def cases(self, tier, shard):
        return all_programs(tier, only=shard)

    def show(self, case):
        return render.text(case)

    def shrink(self, case):
        for cand in A.shrink_program(case):
            if U.valid(cand):
                yield cand

    def run_case(self, p, ctx):
        body_texts = [render.stmt_lines(s) for s in p[2]]
        if any(s[0] == "macro" and s[1] == "ms" for s in p[2]) and len(p[2]) >= 3:
            ctx.nontriv(render.text(p))
        for q in subprograms(p):
            text = render.text(q)
            model = Model(q)
            want_den = model.den()
            want_sym = model.sym()
            ctx.trace()
            try:
                c = impl.parse(text)
            except Exception as ex:  # noqa: BLE001
                ctx.fail("parse-raises", "%s: %s\n%s" % (type(ex).__name__, ex, text), case=q)
                continue
            ctx.transition()
            got_sym = abstraction.sym(c)
            ctx.state(got_sym)
            if got_sym != want_sym:
                ctx.fail("binding", "named references differ\nmodel          %r\nimplementation %r" % (want_sym, got_sym), case=q)
            for route, conv in (("build-lists", _as_lists), ("build-tuples", _as_tuples)):
                ctx.trace()
                try:
                    cb = impl.build(conv(render.sexpr(q)))
                except Exception as ex:  # noqa: BLE001
                    ctx.fail("build-raises", "%s: %s: %s" % (route, type(ex).__name__, ex), case=q)
                    continue
                if abstraction.sym(cb) != want_sym:
                    ctx.fail("binding", "%s: named references differ\nmodel          %r\nimplementation %r" % (route, want_sym, abstraction.sym(cb)), case=q)
                for binding in ("gate_def", "name"):
                    got = abstraction.den(cb, binding=binding)
                    if got != want_den:
                        ctx.fail("meaning", "%s (%s reading)\nmodel          %r\nimplementation %r" % (route, binding, want_den, got), case=q)
                        break
            for label, circ in (("parse", c), ("expand_macros", None), ("fill_in_let", None), ("let+macros", None), ("let+map", None), ("let+map+macros", None)):
                try:
                    if label == "let+map":
                        circ = impl.fill_in_map(impl.fill_in_let(c))
                    elif label == "let+map+macros":
                        circ = impl.expand_macros(impl.fill_in_map(impl.fill_in_let(c)))
                    elif label == "expand_macros":
                        circ = impl.expand_macros(c)
                    elif label == "fill_in_let":
                        circ = impl.fill_in_let(c)
                    elif label == "let+macros":
                        circ = impl.expand_macros(impl.fill_in_let(c))
                except impl.JaqalError as ex:
                    if label.startswith("let+map"):
                        ctx.count("fill_in_map_not_applicable")  # e.g. a whole register passed to a macro
                        continue
                    ctx.fail("pass-raises", "%s: %s: %s" % (label, type(ex).__name__, ex), case=q)
                    continue
                except Exception as ex:  # noqa: BLE001
                    ctx.fail("pass-raises", "%s: %s: %s" % (label, type(ex).__name__, ex), case=q)
                    continue
                for binding in ("gate_def", "name"):
                    got = abstraction.den(circ, binding=binding)
                    if got != want_den:
                        ctx.fail("meaning", "after %s (%s reading)\nmodel          %r\nimplementation %r" % (label, binding, want_den, got), case=q)
                        break
        ctx.outcome("scopes:%d" % sum(1 for s in p[2] if s[0] != "macro" or s[1] != "mm"))


CHECK = C07()

if __name__ == "__main__":
    print(sum(1 for _ in all_programs("quick")))
