"""C05 - let substitution (with overrides) preserves meaning in the chosen environment.

Space : (program, override) pairs.  Programs: the shared pool and deviation neighbourhoods
        (constants in gate arguments, qubit indices, register size, single-qubit alias index,
        slice bounds, loop and subcircuit counts, inside macro bodies, shadowed by macro
        parameters, passed as macro arguments).  Overrides: for pool programs ALL dictionaries
        over subsets of the declared constants with values from {0,1,2,3} (integer constants)
        and {0.25,-1.5,2} (float constants); for neighbourhood programs a fixed menu of 9.
        Pairs the model deems invalid belong to C14 and are only counted here.
Oracle: no Constant reachable from body / registers / macro bodies (following the references
        the IR holds); den(abstraction(fill_in_let(c, ov)), {}) == den(model, env(ov)) through the
        object route and through generate->parse; macros, native gates, usepulses and declared
        constants preserved; parse(expand_let=True, override_dict=ov) agrees.
"""
import itertools

from mc import impl
from mc.progcheck import ProgramCheck
from mc.ref import render, abstraction, universe as U, ast as A
from mc.ref.meaning import Model, Invalid

INT_VALUES = (0, 1, 2, 3)
FLOAT_VALUES = (0.25, -1.5, 2)
MENU = ((), (("n", 0),), (("n", 3),), (("k", 0),), (("k", 2),), (("x", -1.5),), (("n", 1), ("k", 0)),
        (("sz", 2),), (("n", 3), ("k", 2), ("x", 2)))


def all_overrides(p):
    lets = [(h[1], h[2]) for h in p[1] if h[0] == "let"]
    doms = []
    for name, val in lets:
        vals = FLOAT_VALUES if isinstance(val, float) else INT_VALUES
        doms.append([None] + [(name, v) for v in vals])
    for combo in itertools.product(*doms):
        yield tuple(c for c in combo if c is not None)


def find_constant(circ):
    """path of the first Constant reachable from statements, registers or macro bodies"""
    seen = set()

    def reg(r, path):
        if id(r) in seen:
            return None
        seen.add(id(r))
        if isinstance(r, impl.Constant):
            return path
        if isinstance(r, impl.NamedQubit):
            if isinstance(r.alias_index, impl.Constant):
                return path + ".alias_index"
            return reg(r.alias_from, path + ".alias_from")
        if isinstance(r, impl.Register):
            if r.alias_from is None:
                if isinstance(r.size, impl.Constant):
                    return path + ".size"
                return None
            sl = r.alias_slice
            if sl is not None:
                for nm in ("start", "stop", "step"):
                    if isinstance(getattr(sl, nm), impl.Constant):
                        return path + ".alias_slice." + nm
            return reg(r.alias_from, path + ".alias_from")
        return None

    def stmt(s, path):
        if isinstance(s, impl.GateStatement):
            for k, v in s.parameters.items():
                if isinstance(v, impl.Constant):
                    return "%s.%s" % (path, k)
                got = reg(v, "%s.%s" % (path, k))
                if got:
                    return got
            return None
        if isinstance(s, impl.LoopStatement):
            if isinstance(s.iterations, impl.Constant):
                return path + ".iterations"
            return stmt(s.statements, path + ".body")
        if isinstance(s, impl.BlockStatement):
            if isinstance(s.iterations, impl.Constant):
                return path + ".iterations"
            for i, x in enumerate(s.statements):
                got = stmt(x, "%s[%d]" % (path, i))
                if got:
                    return got
        return None

    for name, r in circ.registers.items():
        got = reg(r, "registers[%s]" % name)
        if got:
            return got
    for name, m in circ.macros.items():
        got = stmt(m.body, "macros[%s]" % name)
        if got:
            return got
    return stmt(circ.body, "body")


def side_data(c):
    return (
        tuple((n, k.value) for n, k in c.constants.items()),
        tuple((n, tuple(p.name for p in m.parameters)) for n, m in c.macros.items()),
        tuple(sorted(c.native_gates)),
        tuple(str(u.module) for u in c.usepulses),
        tuple(c.registers),
    )


_CACHE = {}


class C05(ProgramCheck):
    id = "C05"
    rule = (
        "(program, override) pairs: pool programs x all override dictionaries over declared constants "
        "(ints {0,1,2,3}, floats {0.25,-1.5,2}); neighbourhood programs x 9-entry override menu; non-trivial = "
        "the override changes the model's denotation; distinct by (text, override)"
    )
    assumptions = (
        "integer-position constants are overridden by ints, float constants by floats or ints",
        "pairs the model deems invalid (index out of range after override, ...) are C14's and only counted here",
    )

    def specs(self, tier):
        if tier == "quick":
            return [dict(max_nodes=2, leaves=U.LEAVES), dict(max_nodes=3, min_nodes=3, leaves=U.LEAVES[2:10:2])]
        return [dict(max_nodes=3, leaves=U.LEAVES), dict(max_nodes=4, min_nodes=4, leaves=U.LEAVES[4:10:2], loops=("n",), subs=("n",))]

    def nbhd_k(self, tier):
        return 2

    def full_override_nodes(self, tier):
        return 2 if tier == "quick" else 3

    def shards(self, tier):
        return super().shards(tier) + [("open-ended", 0)]

    def open_ended_programs(self):
        """aliases whose omitted bounds follow a let-sized source: `register q[sz]; map a q[1:]`"""
        for lo, st in itertools.product((None, 0, 1), (None, 1, 2)):
            for chain in (0, 1):
                header = (("let", "sz", 3), ("let", "k", 1), ("register", "q", "sz"), ("map", "a", "q", lo, None, st))
                body = [A.gate("g", A.item("a", 0)), A.gate("h", "a")]
                if chain:
                    header += (("map", "b", "a"),)
                    body += [A.gate("h", "b"), A.gate("g", A.item("b", 0))]
                yield A.prog(header, tuple(body))

    def cases(self, tier, shard):
        shard = tuple(shard)
        if shard[0] == "open-ended":
            for p in self.open_ended_programs():
                for sz in (None, 2, 3, 4, 5):
                    yield (p, () if sz is None else (("sz", sz),))
            return
        for p in self.programs(tier, shard):
            nodes = sum(A.node_count(st) for st in p[2] if st[0] != "macro")
            if shard[0] == "pool" and nodes <= self.full_override_nodes(tier):
                for ov in all_overrides(p):
                    yield (p, ov)
            else:
                names = {h[1] for h in p[1] if h[0] == "let"}
                for ov in (MENU if tier != "quick" else MENU[:6]):
                    if all(n in names for n, _v in ov):
                        yield (p, ov)

    def show(self, case):
        p, ov = case
        return {"text": render.text(p), "override": dict(ov)}

    def shrink(self, case):
        p, ov = case
        for i in range(len(ov)):
            yield (p, ov[:i] + ov[i + 1:])
        names = None
        for cand in super().shrink(p):
            names = {h[1] for h in cand[1] if h[0] == "let"}
            if all(n in names for n, _v in ov):
                yield (cand, ov)

    def run_case(self, case, ctx):
        p, ov = case
        ovd = dict(ov)
        text = render.text(p)
        model = Model(p)
        try:
            want = model.den(ovd)
        except Invalid as e:
            ctx.outcome("model-invalid:" + e.reason)
            return
        if not U.den_nesting_ok(model.den(ovd, normalise=False)):
            ctx.outcome("model-illegal-nesting")
            return
        if ov and want != model.den():
            ctx.nontriv((text, ov))
        if _CACHE.get("text") != text:
            _CACHE["text"] = text
            _CACHE["c"] = impl.parse(text)
        c = _CACHE["c"]
        ctx.trace()
        try:
            f = impl.fill_in_let(c, ovd or None)
        except Exception as ex:  # noqa: BLE001
            ctx.outcome("raised")
            ctx.fail("fill-raises", "%s: %s (model: valid, %r)" % (type(ex).__name__, ex, want))
            return
        if ovd != dict(ov):
            ctx.fail("override-dict-modified", "the caller's override dictionary %r became %r" % (dict(ov), ovd))
        ctx.outcome("filled" if ov else "filled-no-override")
        ctx.transition()
        where = find_constant(f)
        if where:
            ctx.fail("constant-left", "a Constant is still reachable at %s" % where)
        got = abstraction.den_both(f)
        ctx.state((abstraction.sym(f)))
        if got[0] != want or got[1] != want:
            ctx.fail("meaning", "model %r\nimplementation %r" % (want, got[0] if got[0] != want else got[1]))
        try:
            back = impl.parse(impl.generate_jaqal_program(f))
            bd = abstraction.den(back)
            if bd != want:
                ctx.fail("text-meaning", "generated text of the result means %r, model %r" % (bd, want))
        except impl.JaqalError as ex:
            ctx.fail("result-not-legal", "generated text of the result does not parse: %s" % ex)
        if side_data(f) != side_data(c):
            ctx.fail("side-data", "%r -> %r" % (side_data(c), side_data(f)))
        # the parser flag
        ctx.trace()
        try:
            pf = impl.parse(text, expand_let=True, override_dict=ovd or None)
            pd = abstraction.den(pf)
            if pd != want:
                ctx.fail("parser-flag-meaning", "expand_let=True gives %r, model %r" % (pd, want))
            if find_constant(pf):
                ctx.fail("parser-flag-constant-left", find_constant(pf))
        except Exception as ex:  # noqa: BLE001
            ctx.fail("parser-flag-raises", "%s: %s" % (type(ex).__name__, ex))


CHECK = C05()

if __name__ == "__main__":
    import sys
    n = 0
    for sh in CHECK.shards(sys.argv[1]):
        n += sum(1 for _ in CHECK.cases(sys.argv[1], sh))
    print(n)
