"""C11 - analyses and transformations never modify their input circuit.

State graph, per program: ONE shared Circuit object (plus the caller's native-gate table);
the alphabet is 13 library calls; every history of length <= 2 (thorough 3) is applied to the
shared object.  After every call
  (a) the deep structural snapshot of everything reachable from the circuit and from the
      caller's gate table (all attributes, lists, dicts, with object identities) is unchanged;
  (b) the call's result equals the result of the same call on a freshly parsed copy.
"""
import itertools

import numpy

from mc import impl, gates
from mc.framework import Check, canon
from mc.fuel import fuel, OutOfFuel
from mc.ref import render, abstraction, ast as A, universe as U
from mc.ref.meaning import Model, Invalid

NATIVES = {k: v[0] for k, v in gates.SIGS.items()}

HEADER = (
    ("let", "n", 2),
    ("let", "k", 1),
    ("let", "x", 0.5),
    ("register", "q", 3),
    ("map", "a", "q", 0, 3, 2),
    ("map", "c", "q", "k"),
)
MACROS = (
    A.macro("m", ("p", "t"), A.seq(A.gate("Rz", "p", "t"), A.gate("X", "p"))),
    A.macro("m2", ("r",), A.par(A.gate("X", A.item("r", 0)), A.gate("Rx", A.item("r", 1), "x"))),
)
BASE = A.prog(
    HEADER,
    MACROS
    + (
        A.gate("prepare_all"),
        A.gate("m", A.item("q", 0), "x"),
        A.gate("m", "c", 2.0),
        A.loop("n", A.seq(A.gate("X", A.item("a", 1)), A.par(A.gate("H", "c"), A.gate("m2", "a")))),
        A.gate("measure_all"),
        A.sub("n", A.gate("CX", "c", A.item("a", 0)), A.loop(2, A.seq(A.gate("m", "c", 0.25)))),
        A.loop("n", A.seq(A.sub(None, A.gate("X", A.item("q", "k"))))),
    ),
)

CALLS = (
    "expand_macros", "expand_macros_preserve", "fill_in_let", "fill_in_let_override", "fill_in_map",
    "expand_subcircuits", "unit_timing", "used_qubits", "generate", "run", "parse_outputs",
    "stretched_gates", "add_idle_gates",
)


BASE_NB = A.prog(
    HEADER,
    MACROS
    + (
        A.sub("n", A.gate("CX", "c", A.item("a", 0)), A.loop(2, A.seq(A.gate("m", "c", 0.25)))),
        A.loop("n", A.seq(A.sub(None, A.gate("X", A.item("q", "k"))))),
        A.gate("m", A.item("q", 0), 1.0),
        # a native gate with an INT parameter called at top level with an integral float (only the 'nb' table has it)
        A.gate("Wt", A.item("q", 1), 2.0),
    ),
)


def table(mode):
    """'full': the fixture table; 'nb': the same without prepare_all / measure_all (the caller's table
    does not know the bounding gates of subcircuit blocks)"""
    t = gates.native_gates()
    if mode == "nb":
        t.pop("prepare_all")
        t.pop("measure_all")
        t["Wt"] = impl.GateDefinition("Wt", [impl.Parameter("q", impl.ParamType.QUBIT), impl.Parameter("n", impl.ParamType.INT)])
    return t


def programs(tier):
    out = [BASE]
    seen = {render.text(BASE)}
    for _l, q in U.single_deviations(BASE):
        t = render.text(q)
        if t in seen:
            continue
        seen.add(t)
        if U.valid(q, NATIVES):
            out.append(q)
    if tier == "quick":
        return out[::3][:40]
    return out


# ---------------------------------------------------------------- deep snapshot
def snapshot(root):
    """structure of everything reachable: (type, identity, contents) with cycles cut"""
    memo = {}
    order = []

    def walk(o):
        if o is None or isinstance(o, (bool, int, float, str, complex)):
            return (type(o).__name__, repr(o))
        if o is all:
            return ("builtin", "all")
        oid = id(o)
        if oid in memo:
            return ("ref", memo[oid])
        memo[oid] = len(order)
        order.append(o)
        me = memo[oid]
        if isinstance(o, (list, tuple)):
            return (type(o).__name__, me, oid, tuple(walk(v) for v in o))
        if isinstance(o, dict):
            return (type(o).__name__, me, oid, tuple((walk(k), walk(v)) for k, v in o.items()))
        if isinstance(o, (set, frozenset)):
            return (type(o).__name__, me, oid, tuple(sorted(repr(v) for v in o)))
        if isinstance(o, slice):
            return ("slice", walk(o.start), walk(o.stop), walk(o.step))
        if isinstance(o, numpy.ndarray):
            return ("ndarray", me, oid, o.tobytes())
        mod = type(o).__module__ or ""
        if mod.startswith("jaqalpaq") and hasattr(o, "__dict__"):
            return (type(o).__name__, me, oid, tuple((k, walk(v)) for k, v in sorted(vars(o).items())))
        if mod == "enum" or hasattr(o, "_value_") and hasattr(o, "_name_"):
            return ("enum", repr(o))
        # functions, modules, foreign objects: identity only
        return ("opaque", type(o).__name__, oid)

    return walk(root)


def canon_result(x, ov=None):
    if isinstance(x, impl.Circuit):
        return ("circuit", impl.generate_jaqal_program(x), abstraction.den(x))
    if isinstance(x, str):
        return ("text", x)
    if isinstance(x, dict):
        out = []
        for k, v in x.items():
            if isinstance(v, (set, frozenset)):
                out.append((k, tuple(sorted(v))))
            else:
                out.append((k, type(v).__name__, tuple(p.name for p in getattr(v, "parameters", ())),
                            getattr(v, "ideal_unitary", None) is not None))
        return ("dict", tuple(sorted(out, key=repr)))
    return ("other", repr(x))


def do_call(name, c, ng, budget=600000):
    """-> canonical result (exceptions by type name)"""
    try:
        with fuel(budget):
            if name == "expand_macros":
                return canon_result(impl.expand_macros(c))
            if name == "expand_macros_preserve":
                return canon_result(impl.expand_macros(c, preserve_definitions=True))
            if name == "fill_in_let":
                return canon_result(impl.fill_in_let(c))
            if name == "fill_in_let_override":
                return canon_result(impl.fill_in_let(c, {"n": 1, "x": -1.5}))
            if name == "fill_in_map":
                return canon_result(impl.fill_in_map(c))
            if name == "expand_subcircuits":
                return canon_result(impl.expand_subcircuits(c))
            if name == "unit_timing":
                return canon_result(impl.normalize_blocks_with_unitary_timing(c))
            if name == "used_qubits":
                return canon_result(dict(impl.get_used_qubit_indices(c)))
            if name == "generate":
                return canon_result(impl.generate_jaqal_program(c))
            if name == "run":
                numpy.random.seed(4242)
                r = impl.run_jaqal_circuit(c)
                return ("run", len(r.subcircuits),
                        tuple(tuple(round(float(v), 12) for v in s.simulated_probability_by_int) for s in r.subcircuits),
                        tuple((ro.subcircuit.index, int(ro.as_int)) for ro in r.readouts))
            if name == "parse_outputs":
                r = impl.parse_jaqal_output_list(c, [1, 0, 3, 2, 5, 4, 7, 6, 1, 2, 3, 4])
                return ("outputs", len(r.subcircuits), tuple((ro.subcircuit.index, int(ro.as_int)) for ro in r.readouts))
            if name == "stretched_gates":
                return canon_result(impl.stretched_gates(c.native_gates, suffix="_s"))
            if name == "add_idle_gates":
                return canon_result(impl.add_idle_gates(c.native_gates))
    except impl.JaqalError:
        return ("JaqalError",)
    except OutOfFuel:
        return ("non-termination",)
    except Exception as ex:  # noqa: BLE001
        return ("exception", type(ex).__name__)
    raise ValueError(name)


class C11(Check):
    id = "C11"
    nshards = 64
    rule = (
        "per program (a feature-rich executable base program and its valid single-site deviations): all call "
        "histories of length <= D over 13 library calls applied to ONE shared circuit object; states = distinct "
        "(program, snapshot) pairs, transitions = calls; non-trivial = a history of length >= 2 whose calls differ"
    )
    assumptions = (
        "the snapshot covers everything reachable through instance attributes of jaqalpaq objects, lists, dicts, tuples and "
        "numpy arrays; functions (ideal unitaries) are compared by identity",
        "stretched_gates(update=True), which is documented to modify its argument, is not in the alphabet",
    )

    def depth(self, tier):
        return 2 if tier == "quick" else 3

    def bounds(self, tier):
        return {"programs": len(programs(tier)), "calls": len(CALLS), "history_depth": self.depth(tier)}

    def all_cases(self, tier):
        d = self.depth(tier)
        for p in programs(tier):
            for first in CALLS:
                yield (p, d, (first,))
        for first in CALLS:
            yield (BASE_NB, d, (first,), "nb")

    def show(self, case):
        p, d, h = case[:3]
        out = {"text": render.text(p), "history": list(h), "depth": d}
        if len(case) > 3:
            out["natives"] = case[3]
        return out

    def shrink(self, case):
        p, d, h = case[:3]
        rest = case[3:]
        for i in range(len(h)):
            if len(h) > 1:
                nh = h[:i] + h[i + 1:]
                yield (p, len(nh), nh) + rest
        for cand in A.shrink_program(p):
            if U.valid(cand, NATIVES):
                yield (cand, d, h) + rest

    def run_case(self, case, ctx):
        p, depth, prefix = case[:3]
        mode = case[3] if len(case) > 3 else "full"
        rest = case[3:]
        text = render.text(p)
        ng = table(mode)
        c = impl.parse(text, inject_pulses=ng)
        root = (c, ng)
        snap0 = snapshot(root)
        ctx.state((text, hash(canon(snap0)) if False else "initial"))
        # baselines on fresh copies
        base = {}

        def baseline(name):
            if name not in base:
                fresh_ng = table(mode)
                fresh = impl.parse(text, inject_pulses=fresh_ng)
                base[name] = do_call(name, fresh, fresh_ng)
            return base[name]

        def step(name, hist):
            """apply one call to the shared object and check both invariants"""
            ctx.transition()
            ctx.trace()
            got = do_call(name, c, ng)
            want = baseline(name)
            ok = True
            if got != want:
                ctx.fail("result-differs", "%s after %s: on the shared object %r\non a fresh copy %r" % (
                    name, list(hist[:-1]), _short(got), _short(want)), case=(p, len(hist), hist) + rest)
                ok = False
            snap = snapshot(root)
            if snap != snap0:
                ctx.fail("input-modified", "%s (history %s) changed the circuit or the caller's gate table: %s" % (
                    name, list(hist), _first_diff(snap0, snap)), case=(p, len(hist), hist) + rest)
                ok = False
            ctx.outcome(got[0])
            return ok

        def explore(hist):
            if len(hist) >= depth:
                return
            for name in CALLS:
                nh = hist + (name,)
                if len(nh) >= 2 and nh[-1] != nh[-2]:
                    ctx.nontriv((text, nh))
                if not step(name, nh):
                    return  # the shared object is no longer pristine: stop this branch
                explore(nh)

        # replay the prefix (for a root case it is just the first call), then explore below it
        for i, name in enumerate(prefix):
            if not step(name, prefix[: i + 1]):
                return
        if len(prefix) == 1:
            explore(prefix)


def _short(x):
    s = repr(x)
    return s if len(s) < 600 else s[:600] + "..."


def _first_diff(a, b, path="root"):
    if type(a) != type(b):
        return "%s: %r -> %r" % (path, a, b)
    if isinstance(a, tuple):
        if len(a) != len(b):
            return "%s: length %d -> %d" % (path, len(a), len(b))
        for i, (x, y) in enumerate(zip(a, b)):
            if x != y:
                return _first_diff(x, y, "%s/%s" % (path, a[0] if i and isinstance(a[0], str) else i))
        return path
    return "%s: %r -> %r" % (path, a, b)


CHECK = C11()

if __name__ == "__main__":
    for t in ("quick", "thorough"):
        print(t, len(programs(t)))
