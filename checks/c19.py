"""C19 - unit-timing normalisation preserves the lock-step schedule.

Space   : every legally nested tree of seq / par / loop / subcircuit blocks over uniquely
          labelled gates with at most N nodes (tree-exhaustive), under two headers.
Oracle  : one small schedule function (gate = 1 step, seq = sum, par = max, loop = count x
          body) applied to the input tree (model side) and to the output IR (read through
          public attributes only) must give the same multiset of (gate, time step); the
          output must be flat; subcircuit annotations and header data must survive; a loop
          that the pass has to schedule inside a parallel block must give JaqalError.
"""
import sys
from collections import Counter

from mc import impl
from mc.combi import TreeGrammar
from mc.framework import Check
from mc.ref import render

# ---------------------------------------------------------------- enumeration
_noctx = lambda ctx: ctx  # noqa: E731


def _rules(loops=(1, 2), subs=(None, 3)):
    # contexts: (where, in_sub, in_par)   where in {top, seq, par, loopbody}
    R = {}
    for in_sub in (False, True):
        for in_par in (False, True):
            top = ("top", in_sub, in_par)
            sq = ("seq", in_sub, in_par)
            pr = ("par", in_sub, True)
            lb = ("loopbody", in_sub, in_par)
            stmts = [
                ("gate", [None], "leaf", None),
                ("par", [None], "many", pr),
                ("loop", list(loops), "one", lb),
            ]
            if not in_sub and not in_par:
                stmts.append(("sub", list(subs), "many", ("seq", True, in_par)))
            R[sq] = list(stmts)
            R[top] = list(stmts) + [("seq", [None], "many", sq)]
            R[lb] = [("seq", [None], "many", sq), ("par", [None], "many", pr)]
    for in_sub in (False, True):
        R[("par", in_sub, True)] = [
            ("gate", [None], "leaf", None),
            ("seq", [None], "many", ("seq", in_sub, True)),
        ]
    return R


GRAMMAR = TreeGrammar(_rules())
LEAN = TreeGrammar(_rules(loops=(2,), subs=(None,)))
TOP = ("top", False, False)


def to_ast(forest):
    """label gates g0, g1, ... in preorder; return AST statements"""
    counter = [0]

    def conv(t):
        k = t[0]
        if k == "gate":
            name = "g%d" % counter[0]
            counter[0] += 1
            return ("gate", name, ())
        if k in ("seq", "par"):
            return (k, tuple(conv(c) for c in t[2]))
        if k == "sub":
            return ("sub", t[1], tuple(conv(c) for c in t[2]))
        if k == "loop":
            return ("loop", t[1], conv(t[2]))
        raise ValueError(t)

    return tuple(conv(t) for t in forest)


HEADERS = (
    (("register", "q", 2),),
    (
        ("usepulses", "some.pulses"),
        ("let", "n", 2),
        ("let", "x", 0.5),
        ("register", "q", "n"),
        ("map", "a", "q", 0, "n", None),
    ),
)
MACRO = ("macro", "mm", ("p",), ("seq", (("gate", "gm", ("p", "x")),)))


# ---------------------------------------------------------------- schedule oracle
def schedule(stmts, t0=0, subs=()):
    """-> (list of (label, time, enclosing subcircuit counts), duration) for a sequence"""
    out = []
    t = t0
    for s in stmts:
        ev, d = schedule1(s, t, subs)
        out += ev
        t += d
    return out, t - t0


def schedule1(s, t, subs):
    k = s[0]
    if k == "gate":
        return [(s[1], t, subs)], 1
    if k == "seq":
        return schedule(s[1], t, subs)
    if k == "sub":
        return schedule(s[2], t, subs + (("sub", s[1]),))
    if k == "par":
        out, dur = [], 0
        for b in s[1]:
            ev, d = schedule1(b, t, subs)
            out += ev
            dur = max(dur, d)
        return out, dur
    if k == "loop":
        ev, d = schedule1(s[2], 0, subs)
        out = []
        for i in range(s[1]):
            out += [(l, t + i * d + tt, sb) for l, tt, sb in ev]
        return out, s[1] * d
    raise ValueError(s)


def needs_reject(stmts, in_par=False):
    """a loop the pass must schedule inside a parallel block (not inside a loop body)"""
    for s in stmts:
        k = s[0]
        if k == "loop":
            if in_par:
                return True
        elif k == "par":
            if needs_reject(s[1], True):
                return True
        elif k == "seq":
            if needs_reject(s[1], in_par):
                return True
        elif k == "sub":
            if needs_reject(s[2], in_par):
                return True
    return False


# ---------------------------------------------------------------- IR abstraction (public attrs)
def _val(x):
    return x.value if isinstance(x, impl.Constant) else x


def ir_tree(stmt):
    if isinstance(stmt, impl.GateStatement):
        return ("gate", stmt.name, ())
    if isinstance(stmt, impl.LoopStatement):
        return ("loop", _val(stmt.iterations), ir_tree(stmt.statements))
    if isinstance(stmt, impl.BlockStatement):
        items = tuple(ir_tree(s) for s in stmt.statements)
        if stmt.subcircuit:
            it = _val(stmt.iterations)
            return ("sub", it, items)
        return ("par" if stmt.parallel else "seq", items)
    raise TypeError(type(stmt))


def is_flat(items):
    for s in items:
        k = s[0]
        if k in ("gate", "loop"):
            continue
        if k == "par":
            if not all(c[0] == "gate" for c in s[1]):
                return False
        elif k == "sub":
            if not is_flat(s[2]):
                return False
        else:
            return False
    return True


def norm_subs(ev):
    # 'subcircuit' and 'subcircuit 1' are the same annotation
    return Counter((l, t, tuple((a, 1 if b is None else b) for a, b in sb)) for l, t, sb in ev)


def header_sig(c):
    return (
        tuple((k, v.value) for k, v in c.constants.items()),
        tuple(c.registers.keys()),
        tuple(c.macros.keys()),
        tuple(sorted(c.native_gates.keys())),
        tuple(str(u.module) for u in c.usepulses),
    )


class C19(Check):
    id = "C19"
    nshards = 64
    rule = (
        "all legally nested trees of seq/par/loop(1,2)/subcircuit(none,3) blocks over uniquely labelled gates "
        "with <= N nodes (tree-exhaustive) x 2 headers; non-trivial = contains a parallel block with a "
        "sequential branch of length >= 2 or a rejected loop-in-parallel; distinct by canonical text"
    )
    assumptions = (
        "gate durations are one unit each (the property's unit-time model)",
        "loop counts 1, 2; subcircuit counts none, 3; nesting bounded by node count",
    )

    def bounds(self, tier):
        q = tier == "quick"
        return {"max_nodes": 7 if q else 8, "rich_max_nodes": 5 if q else 6, "rich_header_max_nodes": 4 if q else 5}

    def all_cases(self, tier):
        b = self.bounds(tier)
        for n in range(0, b["max_nodes"] + 1):
            g = GRAMMAR if n <= b["rich_max_nodes"] else LEAN
            for f in g.iter_forests(n, TOP):
                yield (0, f)
                if n <= b["rich_header_max_nodes"]:
                    yield (1, f)

    def show(self, case):
        hv, forest = case
        return render.oneline(self._prog(case))

    def _prog(self, case):
        hv, forest = case
        body = to_ast(forest)
        if hv == 1:
            body = (MACRO,) + body + (("gate", "mm", (("item", "a", 0),)),)
        return ("prog", HEADERS[hv], body)

    def shrink(self, case):
        hv, forest = case

        def variants(t):
            k = t[0]
            if k in ("seq", "par", "sub"):
                ch = t[2]
                for i in range(len(ch)):
                    yield (k, t[1], ch[:i] + ch[i + 1:])
                for i, c in enumerate(ch):
                    for v in variants(c):
                        yield (k, t[1], ch[:i] + (v,) + ch[i + 1:])
            elif k == "loop":
                for v in variants(t[2]):
                    yield (k, t[1], v)

        if hv:
            yield (0, forest)
        for i in range(len(forest)):
            yield (hv, forest[:i] + forest[i + 1:])
        for i, t in enumerate(forest):
            for v in variants(t):
                yield (hv, forest[:i] + (v,) + forest[i + 1:])

    def run_case(self, case, ctx):
        p = self._prog(case)
        body = tuple(s for s in p[2] if s[0] != "macro")
        text = render.text(p)
        c = impl.parse(text)
        before = impl.generate_jaqal_program(c)
        ev_in, _ = schedule(body)
        expect_reject = needs_reject(body)
        if expect_reject or any(
            s[0] == "par" and any(b[0] == "seq" and len(b[1]) >= 2 for b in s[1])
            for st in body for s in _walk(st)
        ):
            ctx.nontriv(text)
        ctx.trace()
        try:
            out = impl.normalize_blocks_with_unitary_timing(c)
        except impl.JaqalError:
            ctx.outcome("rejected")
            if not expect_reject:
                ctx.fail("spurious-reject", "JaqalError although no loop has to be scheduled inside a parallel block")
            return
        except Exception as e:  # noqa: BLE001
            ctx.outcome("crash")
            ctx.fail("crash", "%s: %s" % (type(e).__name__, e))
            return
        if expect_reject:
            ctx.outcome("accepted-loop-in-par")
            ctx.fail("loop-in-parallel-accepted", "a loop nested in a parallel block was not rejected")
            return
        ctx.outcome("normalised")
        items = tuple(ir_tree(s) for s in out.body.statements)
        ctx.state(items)
        ctx.transition(len(ev_in))
        ev_out, _ = schedule(items)
        cin = Counter((l, t) for l, t, _sb in ev_in)
        cout = Counter((l, t) for l, t, _sb in ev_out)
        if cin != cout:
            lost = cin - cout
            extra = cout - cin
            ctx.fail("schedule", "input steps %s, output steps %s (missing %s, unexpected %s)" % (
                sorted(cin.items()), sorted(cout.items()), sorted(lost), sorted(extra)))
        elif norm_subs(ev_in) != norm_subs(ev_out):
            ctx.fail("subcircuit-annotation", "gates keep their time step but not their enclosing subcircuit: %s -> %s" % (
                sorted(norm_subs(ev_in)), sorted(norm_subs(ev_out))))
        if not is_flat(items):
            ctx.fail("not-flat", "output body %r" % (items,))
        if header_sig(out) != header_sig(c):
            ctx.fail("header", "header data changed: %r -> %r" % (header_sig(c), header_sig(out)))
        if impl.generate_jaqal_program(c) != before:
            ctx.fail("input-mutated", "the input circuit changed")


def _walk(s):
    yield s
    k = s[0]
    if k in ("seq", "par"):
        for c in s[1]:
            yield from _walk(c)
    elif k == "sub":
        for c in s[2]:
            yield from _walk(c)
    elif k == "loop":
        yield from _walk(s[2])


CHECK = C19()

if __name__ == "__main__":
    for n in range(0, 9):
        print(n, len(LEAN.forests(n, TOP)))
