"""C10 - passes commute, are idempotent, and keep circuits legal.

State graph, per (program, override): nodes are the circuits reachable from parse(text) by
histories over {S = expand_subcircuits, L = fill_in_let(override), M = expand_macros,
P = expand_macros(preserve_definitions), A = fill_in_map}; breadth-first to the depth bound
with deduplication on the canonical form (generated text + denotation).  A transition that
raises JaqalError is "not applicable"; any other exception is a violation.

Invariants, evaluated in every state:
 meaning    den(state) with subcircuits read as prepare_all..measure_all == the model's
            (C09's equivalence: S then M leaves a macro-born subcircuit, M then S does not);
            for histories without S the denotation (with counts) must equal the model's exactly
 idempotent applying the pass that was applied last once more gives an equal circuit
            (== both ways, identical text)
 legal      generate(state) parses, and the re-parse has the same denotation
 flags      parse(text, expand_macro/expand_let/expand_let_map, override_dict) equals the
            corresponding composition applied to the plain parse
"""
from collections import deque

from mc import impl
from mc.progcheck import ProgramCheck
from mc.ref import render, abstraction, universe as U, ast as A
from mc.ref.meaning import Model, Invalid, norm_top

PASSES = ("S", "L", "M", "P", "A")
OVERRIDES = ((), (("n", 3), ("k", 2), ("x", -1.5)), (("n", 1),), (("k", 0), ("sz", 3)))


def apply_pass(name, c, ovd):
    if name == "S":
        return impl.expand_subcircuits(c)
    if name == "L":
        return impl.fill_in_let(c, ovd or None)
    if name == "M":
        return impl.expand_macros(c)
    if name == "P":
        return impl.expand_macros(c, preserve_definitions=True)
    if name == "A":
        return impl.fill_in_map(c)
    raise ValueError(name)


def expand_subs(d):
    """model side of C09: sub(n, B) == seq[prepare_all, B..., measure_all]"""
    k = d[0]
    if k == "gate" or k == "invalid":
        return d
    if k == "sub":
        return ("seq", (("gate", "prepare_all", ()),) + tuple(expand_subs(i) for i in d[2]) + (("gate", "measure_all", ()),))
    if k in ("seq", "par"):
        return (k, tuple(expand_subs(i) for i in d[1]))
    if k == "loop":
        return ("loop", d[1], expand_subs(d[2]))
    raise ValueError(d)


def flat_meaning(d):
    if d[0] == "invalid":
        return d
    return norm_top((expand_subs(d),))


CANON_CASE = (A.prog((), (A.seq(A.sub(None),),)), (), 1, ("S",))


def nested_expanded_subcircuit(block, top=False):
    """a plain sequential block that starts with prepare_all and ends with measure_all, directly inside a
    sequential block (or as an item of a loop's sequential body)"""
    for s in block.statements:
        if isinstance(s, impl.BlockStatement):
            if (not top and not s.parallel and not s.subcircuit and not block.parallel and s.statements
                    and isinstance(s.statements[0], impl.GateStatement) and s.statements[0].name == "prepare_all"
                    and isinstance(s.statements[-1], impl.GateStatement) and s.statements[-1].name == "measure_all"):
                return True
            if nested_expanded_subcircuit(s):
                return True
        elif isinstance(s, impl.LoopStatement):
            if nested_expanded_subcircuit(s.statements):
                return True
    return False


class C10(ProgramCheck):
    id = "C10"
    rule = (
        "per (program, override): BFS over pass histories of {expand_subcircuits, fill_in_let(ov), expand_macros, "
        "expand_macros(preserve), fill_in_map} to depth D with canonical-form deduplication; states = distinct "
        "(text, denotation) circuits reached, transitions = pass applications; non-trivial = a program whose graph "
        "has >= 4 distinct states"
    )
    assumptions = (
        "a pass that raises JaqalError is 'not applicable' in that state",
        "fill_in_map is only applied after fill_in_let when the override dictionary is non-empty (it resolves aliases "
        "with the declared constants, so it is not applicable while overridden constants are still symbolic)",
        "meaning is compared modulo 'subcircuit { B }' == 'prepare_all; B; measure_all' (C09) once expand_subcircuits "
        "is on the path; exactly otherwise",
    )

    def specs(self, tier):
        if tier == "quick":
            return [dict(max_nodes=2, leaves=U.LEAVES)]
        return [dict(max_nodes=3, leaves=U.LEAVES), dict(max_nodes=4, min_nodes=4, leaves=U.LEAVES[10:13], loops=("n",), subs=(None,))]

    def nbhd_k(self, tier):
        return 1  # k = 2 costs 45 min for this check (a graph search per program); thorough widens the pool instead

    def depth(self, tier):
        return 4 if tier == "quick" else 5

    _canon = None

    def canonical_fails(self):
        if C10._canon is None:
            from mc.framework import Ctx
            sub = Ctx()
            C10._canon = False  # guards the recursion through run_case
            sub._case = CANON_CASE
            self.run_case(CANON_CASE, sub)
            C10._canon = any(cl == "not-legal" for cl, _c, _d in sub.failures)
        return C10._canon

    def bounds(self, tier):
        b = super().bounds(tier)
        b["history_depth"] = self.depth(tier)
        b["overrides"] = [dict(o) for o in OVERRIDES]
        return b

    def cases(self, tier, shard):
        d = self.depth(tier)
        for p in self.programs(tier, tuple(shard)):
            names = {h[1] for h in p[1] if h[0] == "let"}
            for ov in OVERRIDES:
                if all(n in names for n, _ in ov):
                    yield (p, ov, d)

    def show(self, case):
        p, ov = case[0], case[1]
        out = {"text": render.text(p), "override": dict(ov), "depth": case[2]}
        if len(case) > 3:
            out["history"] = "".join(case[3])
        return out

    def shrink(self, case):
        p, ov, d = case[:3]
        rest = case[3:]
        if rest:
            h = rest[0]
            for i in range(len(h)):
                nh = h[:i] + h[i + 1:]
                yield (p, ov, len(nh), nh)
        for i in range(len(ov)):
            yield (p, ov[:i] + ov[i + 1:], d) + rest
        for cand in ProgramCheck.shrink(self, p):
            names = {h[1] for h in cand[1] if h[0] == "let"}
            if all(n in names for n, _ in ov):
                yield (cand, ov, d) + rest

    # ------------------------------------------------------------------
    def run_case(self, case, ctx):
        p, ov, depth = case[:3]
        only = case[3] if len(case) > 3 else None  # replay of one history
        ovd = dict(ov)
        text = render.text(p)
        model = Model(p)
        try:
            want = model.den(ovd)
        except Invalid as e:
            ctx.outcome("model-invalid:" + e.reason)
            return
        if not U.den_nesting_ok(model.den(ovd, normalise=False)):
            ctx.outcome("model-illegal-nesting")
            return
        want_flat = flat_meaning(want)
        c0 = impl.parse(text)
        ctx.trace()

        def key_of(c):
            return (impl.generate_jaqal_program(c), abstraction.den(c, ovd))

        def check_state(c, path):
            """invariants of one state; returns its key"""
            t = impl.generate_jaqal_program(c)
            d = abstraction.den(c, ovd)
            d2 = abstraction.den(c, ovd, binding="name")
            hist = tuple(path)
            if "S" not in path:
                if d != want or d2 != want:
                    ctx.fail("meaning", "after %s: model %r\nimplementation %r" % ("".join(path) or "-", want, d if d != want else d2),
                             case=(p, ov, len(hist), hist))
            if flat_meaning(d) != want_flat:
                ctx.fail("meaning-flat", "after %s: model %r\nimplementation %r" % ("".join(path) or "-", want_flat, flat_meaning(d)),
                         case=(p, ov, len(hist), hist))
            # legality of the text
            try:
                back = impl.parse(t)
                bd = abstraction.den(back, ovd if "L" not in path else None)
                if flat_meaning(bd) != want_flat:
                    ctx.fail("text-meaning", "after %s the generated text means %r, model %r" % ("".join(path) or "-", flat_meaning(bd), want_flat),
                             case=(p, ov, len(hist), hist))
            except impl.JaqalError as ex:
                # Known defect family (see KNOWN_FINDINGS.txt): expand_subcircuits replaces a subcircuit block that sits
                # inside a sequential block / loop body by a *sequential block*, which Jaqal cannot nest there.  It is
                # identified by that shape in the IR and reported against the canonical minimal input, provided that
                # input fails in the same way right now; anything else is reported against its own input.
                if (nested_expanded_subcircuit(c.body, top=True) or any(nested_expanded_subcircuit(m.body) for m in c.macros.values())) and self.canonical_fails():
                    ctx.fail("not-legal", "after %s the generated text is rejected: %s" % ("".join(path) or "-", ex), case=CANON_CASE)
                else:
                    ctx.fail("not-legal", "after %s the generated text is rejected: %s" % ("".join(path) or "-", ex), case=(p, ov, len(hist), hist))
            return (t, d)

        seen = {}
        k0 = check_state(c0, ())
        seen[k0] = ()
        ctx.state((text, ov, k0[0]))
        frontier = deque([(c0, ())])
        nstates = 1
        while frontier:
            c, path = frontier.popleft()
            if len(path) >= depth:
                continue
            for name in PASSES:
                if only is not None and tuple(only[: len(path) + 1]) != path + (name,):
                    continue
                if name == "A" and ov and "L" not in path:
                    continue
                ctx.transition()
                ctx.trace()
                try:
                    nc = apply_pass(name, c, ovd)
                    if ovd != dict(ov):
                        ctx.fail("override-dict-modified", "%s changed the caller's override dictionary %r into %r" % (name, dict(ov), ovd),
                                 case=(p, ov, len(path) + 1, path + (name,)))
                        ovd.clear()
                        ovd.update(dict(ov))
                except impl.JaqalError:
                    ctx.count("not_applicable")
                    continue
                except Exception as ex:  # noqa: BLE001
                    ctx.fail("pass-crashes", "%s after %s: %s: %s" % (name, "".join(path) or "-", type(ex).__name__, ex),
                             case=(p, ov, len(path) + 1, path + (name,)))
                    continue
                npath = path + (name,)
                if path and path[-1] == name:
                    # idempotence: X(X(c)) must equal X(c)
                    same_text = impl.generate_jaqal_program(nc) == impl.generate_jaqal_program(c)
                    if not (nc == c and c == nc and same_text):
                        ctx.fail("not-idempotent", "%s applied twice after %s gives a different circuit" % (name, "".join(path[:-1]) or "-"),
                                 case=(p, ov, len(npath), npath))
                k = (impl.generate_jaqal_program(nc), abstraction.den(nc, ovd))
                if k in seen:
                    continue
                k = check_state(nc, npath)
                seen[k] = npath
                nstates += 1
                ctx.state((text, ov, k[0]))
                frontier.append((nc, npath))
        if nstates >= 4:
            ctx.nontriv((text, ov))
        ctx.outcome("states:%d" % min(nstates, 12))
        if only is None:
            self.check_flags(p, text, c0, ovd, ov, depth, ctx)

    def check_flags(self, p, text, c0, ovd, ov, depth, ctx):
        combos = (
            (dict(expand_macro=True), ("P",)),
            (dict(expand_let=True), ("L",)),
            (dict(expand_let_map=True), ("L", "A")),
            (dict(expand_macro=True, expand_let=True), ("P", "L")),
            (dict(expand_macro=True, expand_let_map=True), ("P", "L", "A")),
            (dict(expand_macro=True, expand_let=True, expand_let_map=True), ("P", "L", "A")),
        )
        for flags, comp in combos:
            ctx.transition()
            try:
                want_c = c0
                for name in comp:
                    want_c = apply_pass(name, want_c, ovd)
                want_exc = None
            except impl.JaqalError as ex:
                want_exc = ex
            except Exception:  # noqa: BLE001  (reported by the graph search)
                continue
            try:
                got = impl.parse(text, override_dict=ovd or None, **flags)
                got_exc = None
            except impl.JaqalError as ex:
                got_exc = ex
            except Exception as ex:  # noqa: BLE001
                ctx.fail("flags-crash", "%r: %s: %s" % (flags, type(ex).__name__, ex))
                continue
            if (want_exc is None) != (got_exc is None):
                ctx.fail("flags-applicability", "%r: parser %s, composition %s" % (flags, got_exc or "returns", want_exc or "returns"))
                continue
            if want_exc is not None:
                continue
            if not (got == want_c and want_c == got) or impl.generate_jaqal_program(got) != impl.generate_jaqal_program(want_c):
                ctx.fail("flags-differ", "%r: parser flag result differs from %s applied to the plain parse:\n%s\nvs\n%s" % (
                    flags, "".join(comp), impl.generate_jaqal_program(got), impl.generate_jaqal_program(want_c)))
            elif abstraction.den(got, ovd) != abstraction.den(want_c, ovd):
                ctx.fail("flags-meaning", "%r" % (flags,))


CHECK = C10()
