"""C09 - subcircuit blocks mean prepare_all ... measure_all.

Space : tree-exhaustive placements of subcircuit blocks (count absent / literal / let),
        explicit prepare/measure sections and calls of a macro whose body is a subcircuit,
        at top level, in sequential blocks and in loops (counts 0, 1, 2, let), bounded by total
        node count; each under three native-gate situations (native prepare/measure present,
        absent, supplied by the caller by name and by definition).
Oracle: structural - expand_subcircuits(c) has no subcircuit block (body and macro bodies), its
        denotation equals the model's with every sub(n, B) replaced by seq[prepare, B, measure],
        the bounding gates are the native / supplied definitions, header data unchanged;
        behavioural - the program and its model-rewritten prepare/measure twin give the same
        run_jaqal_circuit result (subcircuits, probabilities, readout sequence under the same
        seed) and the same parse_jaqal_output_list result for every output list.
"""
import itertools

import numpy

from mc import impl, gates
from mc.combi import TreeGrammar
from mc.framework import Check
from mc.fuel import fuel, OutOfFuel
from mc.ref import render, abstraction, ast as A
from mc.ref.meaning import Model, Invalid, flat_meaning

NATIVES = {k: v[0] for k, v in gates.SIGS.items()}


def _rules():
    R = {}
    leaves = [("sub", None), ("sub", 2), ("sub", "n"), ("pm", None), ("msub", None), ("gsub", None), ("mlsub", None)]
    for in_loop in (False, True):
        top = ("top", in_loop)
        sq = ("seq", in_loop)
        lb = ("loopbody", True)
        stmts = [("leaf", leaves, "leaf", None), ("loop", [0, 1, 2, "n"], "one", lb)]
        R[sq] = list(stmts)
        R[top] = list(stmts) + [("seq", [None], "many", sq)]
        R[lb] = [("seq", [None], "many", ("seq", True))]
    return R


GRAMMAR = TreeGrammar(_rules())
TOP = ("top", False)
HEADER = (("let", "n", 2), ("register", "q", 2))
MACROS = (
    A.macro("ms", ("p",), A.seq(A.sub(None, A.gate("X", "p")))),
    # a subcircuit inside a loop inside a sequential block inside a macro, reached through another macro
    A.macro("ml", ("p", "c"), A.seq(A.gate("prepare_all"), A.gate("measure_all"), A.loop("c", A.seq(A.sub("c", A.gate("X", "p"), A.gate("H", "p")))))),
    A.macro("mo", ("p",), A.seq(A.gate("ml", "p", 2))),
)
TWIN_MACROS = (
    A.macro("ms", ("p",), A.seq(A.gate("prepare_all"), A.gate("X", "p"), A.gate("measure_all"))),
    A.macro("ml", ("p", "c"), A.seq(A.gate("prepare_all"), A.gate("measure_all"), A.loop("c", A.seq(A.gate("prepare_all"), A.gate("X", "p"), A.gate("H", "p"), A.gate("measure_all"))))),
    A.macro("mo", ("p",), A.seq(A.gate("ml", "p", 2))),
)


def to_program(forest, twin=False):
    """AST of the program; twin=True gives the model-rewritten prepare/measure spelling"""
    counter = [0]

    def body_gate():
        i = counter[0] % 2
        counter[0] += 1
        return A.gate("X", A.item("q", i))

    def conv(t):
        """-> list of statements (a leaf may splice several)"""
        k = t[0]
        if k == "leaf":
            kind, cnt = t[1]
            if kind == "sub":
                g = body_gate()
                if twin:
                    return [A.gate("prepare_all"), g, A.gate("measure_all")]
                return [A.sub(cnt, g)]
            if kind == "gsub":  # a subcircuit with a loop inside
                g = body_gate()
                inner = A.loop(2, A.seq(g))
                if twin:
                    return [A.gate("prepare_all"), inner, A.gate("measure_all")]
                return [A.sub(None, inner)]
            if kind == "pm":
                g = body_gate()
                return [A.gate("prepare_all"), g, A.gate("measure_all")]
            if kind == "msub":
                i = counter[0] % 2
                counter[0] += 1
                return [A.gate("ms", A.item("q", i))]
            if kind == "mlsub":
                i = counter[0] % 2
                counter[0] += 1
                return [A.gate("mo", A.item("q", i))]
        if k == "seq":
            return [A.seq(*[s for c in t[2] for s in conv(c)])]
        if k == "loop":
            return [A.loop(t[1], conv(t[2])[0])]
        raise ValueError(t)

    body = tuple(s for t in forest for s in conv(t))
    macros = TWIN_MACROS if twin else MACROS
    used = {n[1] for s in body for n in A.walk(s) if n[0] == "gate"}
    if "mo" in used:
        used.add("ml")
    return A.prog(HEADER, tuple(m for m in macros if m[1] in used) + body)


def has_sub_block(block):
    for s in block.statements:
        if isinstance(s, impl.BlockStatement):
            if s.subcircuit or has_sub_block(s):
                return True
        elif isinstance(s, impl.LoopStatement):
            if s.statements.subcircuit or has_sub_block(s.statements):
                return True
    return False


def bounding_defs(block, pname, mname, out):
    for s in block.statements:
        if isinstance(s, impl.GateStatement):
            if s.name in (pname, mname):
                out.append(s.gate_def)
        elif isinstance(s, impl.BlockStatement):
            bounding_defs(s, pname, mname, out)
        elif isinstance(s, impl.LoopStatement):
            bounding_defs(s.statements, pname, mname, out)
    return out


def count_sub_blocks(block):
    n = 1 if getattr(block, "subcircuit", False) else 0
    for s in block.statements:
        if isinstance(s, impl.BlockStatement):
            n += count_sub_blocks(s)
        elif isinstance(s, impl.LoopStatement):
            n += count_sub_blocks(s.statements)
    return n


def run_summary(c, budget):
    numpy.random.seed(12345)
    try:
        with fuel(budget):
            r = impl.run_jaqal_circuit(c)
    except impl.JaqalError:
        return ("rejected",)
    except OutOfFuel:
        return ("non-termination",)
    except Exception as ex:  # noqa: BLE001
        return ("crash", type(ex).__name__)
    return (
        "ran",
        len(r.subcircuits),
        tuple(tuple(round(float(x), 12) for x in sc.simulated_probability_by_int) for sc in r.subcircuits),
        tuple((ro.subcircuit.index, int(ro.as_int)) for ro in r.readouts),
    )


def outlist_summary(c, outs, budget):
    try:
        with fuel(budget):
            r = impl.parse_jaqal_output_list(c, list(outs))
    except impl.JaqalError:
        return ("rejected",)
    except OutOfFuel:
        return ("non-termination",)
    except StopIteration:
        return ("too-few-outputs",)
    except Exception as ex:  # noqa: BLE001
        return ("crash", type(ex).__name__)
    return ("parsed", len(r.subcircuits), tuple((ro.subcircuit.index, int(ro.as_int)) for ro in r.readouts))


class C09(Check):
    id = "C09"
    nshards = 48
    rule = (
        "tree-exhaustive placements of subcircuit blocks (count none/2/let), explicit prepare/measure sections, "
        "calls of a macro containing a subcircuit and subcircuits containing a loop, in seq blocks and loops "
        "(0,1,2,let), <= N nodes; x 5 native-gate situations for the structural clause; non-trivial = at least one "
        "subcircuit block inside a loop or next to an explicit section; distinct by canonical text"
    )
    assumptions = (
        "behavioural comparison uses the fixture native set (prepare_all, measure_all, X) and numpy seed 12345",
        "programs whose execution does not terminate within the fuel budget on BOTH spellings are C08's; asymmetric outcomes are failures here",
    )

    def bounds(self, tier):
        return {"max_nodes": 4 if tier == "quick" else 5, "max_outputs_len": 3, "output_alphabet": [0, 1, 2, 3]}

    def all_cases(self, tier):
        for n in range(1, self.bounds(tier)["max_nodes"] + 1):
            for f in GRAMMAR.iter_forests(n, TOP):
                if any(t[0] == "leaf" and t[1][0] in ("sub", "msub", "gsub", "mlsub") for tr in f for t in _walk(tr)):
                    yield f

    def show(self, case):
        return render.text(to_program(case))

    def shrink(self, case):
        f = case

        def variants(t):
            k = t[0]
            if k == "seq":
                ch = t[2]
                for i in range(len(ch)):
                    yield (k, t[1], ch[:i] + ch[i + 1:])
                for i, c in enumerate(ch):
                    for v in variants(c):
                        yield (k, t[1], ch[:i] + (v,) + ch[i + 1:])
            elif k == "loop":
                yield from t[2][2]  # hoist body items
                if t[1] != 1:
                    yield (k, 1, t[2])
                for v in variants(t[2]):
                    yield (k, t[1], v)
            elif k == "leaf" and t[1] != ("sub", None):
                yield ("leaf", ("sub", None))

        for i in range(len(f)):
            yield f[:i] + f[i + 1:]
        for i, t in enumerate(f):
            for v in variants(t):
                yield f[:i] + (v,) + f[i + 1:]

    def run_case(self, forest, ctx):
        p = to_program(forest)
        twin = to_program(forest, twin=True)
        text = render.text(p)
        if any(t[0] == "loop" for tr in forest for t in _walk(tr)) or any(t[0] == "leaf" and t[1][0] == "pm" for tr in forest for t in _walk(tr)):
            ctx.nontriv(text)
        model = Model(p, NATIVES)
        try:
            want = model.den()
        except Invalid as e:
            ctx.outcome("model-invalid:" + e.reason)
            return
        ng = gates.native_gates()
        # ---------------- structural, five native situations
        custom_p = impl.GateDefinition("prep2")
        custom_m = impl.GateDefinition("meas2")
        std_p = impl.GateDefinition("prepare_all")
        std_m = impl.GateDefinition("measure_all")
        situations = (
            ("native", dict(inject_pulses=ng), {}, "prepare_all", "measure_all"),
            ("absent", {}, {}, "prepare_all", "measure_all"),
            ("by-name", dict(inject_pulses=ng), dict(prepare_def="measure_all", measure_def="prepare_all"), "measure_all", "prepare_all"),
            ("by-def", dict(inject_pulses=ng), dict(prepare_def=custom_p, measure_def=custom_m), "prep2", "meas2"),
            # the caller's definitions carry the standard names: they are the caller's objects all the same
            ("by-def-std", dict(inject_pulses=ng), dict(prepare_def=std_p, measure_def=std_m), "prepare_all", "measure_all"),
        )
        for label, pkw, ekw, pname, mname in situations:
            ctx.trace()
            try:
                c = impl.parse(text, **pkw)
                e = impl.expand_subcircuits(c, **ekw)
            except Exception as ex:  # noqa: BLE001
                ctx.fail("expand-raises", "[%s] %s: %s" % (label, type(ex).__name__, ex))
                continue
            ctx.transition()
            if has_sub_block(e.body) or any(m.body.subcircuit or has_sub_block(m.body) for m in e.macros.values()):
                ctx.fail("subcircuit-left", "[%s] a subcircuit block is still present" % label)
            got = abstraction.den(e)
            exp = flat_meaning(want, pname, mname)
            if got != exp:
                ctx.fail("meaning", "[%s] model %r\nimplementation %r" % (label, exp, got))
            # which definitions bound the blocks
            defs = bounding_defs(e.body, pname, mname, [])
            for m in e.macros.values():
                bounding_defs(m.body, pname, mname, defs)
            if label == "native":
                bad = [d for d in defs if d is not ng.get(d.name)]
            elif label == "by-name":
                bad = [d for d in defs if d is not ng.get(d.name)]
            elif label == "by-def":
                # explicit prepare_all / measure_all sections keep their own definitions
                bad = [d for d in defs if d.name in ("prep2", "meas2") and d is not custom_p and d is not custom_m]
            elif label == "by-def-std":
                # every subcircuit block of the input (body and macro bodies) contributes one statement with the
                # caller's prepare and one with the caller's measure definition; written prepare_all / measure_all
                # statements keep the native ones
                nblocks = count_sub_blocks(c.body) + sum(count_sub_blocks(m.body) for m in c.macros.values())
                np_, nm_ = sum(1 for d in defs if d is std_p), sum(1 for d in defs if d is std_m)
                bad = [d for d in defs if d is not std_p and d is not std_m and d is not ng.get(d.name)]
                if not bad and (np_, nm_) != (nblocks, nblocks):
                    bad = ["%d subcircuit block(s), %d statement(s) with the caller's prepare and %d with the caller's measure definition"
                           % (nblocks, np_, nm_)]
            else:
                bad = []
            if bad:
                ctx.fail("bounding-gate", "[%s] bounding gate definition is not the native/supplied one: %r" % (label, bad[:2]))
            cs, es = abstraction.sym(c), abstraction.sym(e)
            if cs[1:4] != es[1:4] or sorted(c.native_gates) != sorted(e.native_gates):
                ctx.fail("header", "[%s] header data changed: %r -> %r" % (label, cs[1:4], es[1:4]))
            ctx.state(es)
        # ---------------- a later, unrelated circuit in which the macro names of this program are plain gates
        macro_names = [st[1] for st in p[2] if st[0] == "macro"]
        if macro_names:
            probe_text = "register q[2]\n" + "".join("%s q[%d]\n" % (nm, i % 2) for i, nm in enumerate(macro_names)) + "subcircuit {\n\tg q[0]\n}\n"
            ctx.trace()
            try:
                pe = impl.expand_subcircuits(impl.parse(probe_text))
                stale = [st.name for st in pe.body.statements if isinstance(st, impl.GateStatement) and isinstance(st.gate_def, impl.Macro)]
                if stale or pe.macros:
                    ctx.fail("foreign-macro", "after this program was expanded, expanding %r turns the plain gates %r into calls of "
                             "macros that the circuit does not define" % (probe_text, stale or list(pe.macros)))
            except Exception as ex:  # noqa: BLE001
                ctx.fail("foreign-macro", "expanding %r after this program: %s: %s" % (probe_text, type(ex).__name__, ex))
        # ---------------- behavioural
        c_sub = impl.parse(text, inject_pulses=ng)
        c_pm = impl.parse(render.text(twin), inject_pulses=ng)
        budget = 400000
        ctx.trace(2)
        a, b = run_summary(c_sub, budget), run_summary(c_pm, budget)
        ctx.outcome((a[0] + ":%d-readouts" % min(len(a[3]), 6)) if a[0] == b[0] == "ran" else "%s/%s" % (a[0], b[0]))
        if a != b:
            ctx.fail("execution-differs", "subcircuit spelling: %r\nprepare/measure spelling: %r" % (a, b))
        if a[0] == "ran" and b[0] == "ran":
            nvis = len(a[3])
            if nvis <= 3:
                for outs in itertools.product((0, 1, 2, 3), repeat=nvis):
                    ctx.transition()
                    x, y = outlist_summary(c_sub, outs, budget), outlist_summary(c_pm, outs, budget)
                    if x != y:
                        ctx.fail("output-list-differs", "outputs %r: subcircuit spelling %r, prepare/measure spelling %r" % (outs, x, y))
                        break
                    if x[0] == "parsed" and tuple(v for _i, v in x[2]) != tuple(outs):
                        ctx.fail("output-list-values", "outputs %r parsed as %r" % (outs, x))
                        break


def _walk(t):
    yield t
    if t[0] == "seq":
        for c in t[2]:
            yield from _walk(c)
    elif t[0] == "loop":
        yield from _walk(t[2])


CHECK = C09()

if __name__ == "__main__":
    for tier in ("quick", "thorough"):
        print(tier, sum(1 for _ in CHECK.all_cases(tier)))
