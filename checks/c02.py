"""C02 - the parser accepts exactly the Jaqal grammar and is insensitive to layout.

Model   : mc/ref/syntax.py - reference lexer, pushdown recogniser / tree builder with the
          viable-prefix property, shortest completion `close`; cross-checked against an Earley
          recogniser over an explicit BNF in selfcheck().
Space 1 : token-level search.  From each seed prefix (one per grammar context) every token string
          over the 24-token alphabet that keeps the prefix viable, up to the depth bound; for
          every such prefix p and every token t the texts p, p.t and p.close(p) are parsed; where
          t is offending only because of its context (a statement kind or separator that this
          list does not admit) p.t is also completed in a superset language and must be rejected.
Space 2 : near misses of a pool of derivable programs: every single-token deletion, duplication,
          adjacent swap and replacement by each alphabet token.
Space 3 : layouts of the pool programs: every rendering with <= 2 (thorough 3) deviations from the
          canonical one-blank layout (separator exchange, blank lines, blanks/tabs, comments).
Space 4 : comment bodies.  Every block-comment body of a small family (empty, runs of `*`, `/`,
          `//`, `/*`, newlines, bodies ending in `*`) and every line-comment body in every comment
          position of every pool program, alone and in pairs of comments (all body pairs for the
          short programs, one body plain for the long ones in the quick tier).
Space 5 : literal variants.  Every INT / NUMBER token of every pool program replaced by each of
          13 literals (zeros, signed, leading zeros, exponents); the pool hits every literal
          position of the grammar; the accepted tree must carry the exact value.
Space 6 : comments in front of an error.  Every structural near miss (deletion, duplication, adjacent
          swap; thorough: every replacement too) of every pool program, and the program itself, with one
          comment in every gap up to the first offending token; bodies include the characters that
          Python's str.splitlines / Unicode treat as line boundaries but Jaqal does not (\r, \v, \f,
          FS/GS/RS, NEL, LS, PS): only \n counts lines, so the reported position must not move.
Oracle  : (i) accepted <=> derivable; (ii) accepted => S-expression == the model's tree;
          (iii) every layout gives the S-expression of the canonical layout; (iv) rejected =>
          JaqalParseError whose (line, column) is the start of a token at or after the model's
          first offending token, or denotes the end of input.

A *case* is small and replayable:
  ("text", s)                     one text, clauses (i) (ii) (iv)
  ("lay", toks, devs)             one layout of a token string, clauses (i)-(iv)
  ("p", seed, toks, tail)         space-1 bundle: prefix seed+toks with all next tokens (and, if
                                  tail > 0, the same for its viable extensions `tail` levels down)
  ("nm", prog, i)                 space-2 bundle: all near misses at token i of pool program prog
  ("layb", prog, idxs, extra)     space-3 bundle: deviations idxs (+ every further one if extra)
  ("cmt", toks, comments)         one text with explicit comment insertions (gap, kind, body)
  ("cmtb", prog, i, full)         space-4 bundle: comment i alone and with every second comment
  ("lit", prog)                   space-5 bundle: all literal variants of pool program prog
  ("rejb", prog, i, all)          space-6 bundle: near misses at token i, one comment before the error
Failures inside a bundle are reported against the narrow ("text", s) / ("lay", ...) form.
"""
from mc import impl
from mc.framework import Check
from mc.fuel import fuel, OutOfFuel
from mc.ref import render
from mc.ref import syntax as S

ALPHABET = S.ALPHABET
_KV = {}

try:  # parse_jaqal_string installs the implementation's sly fast path (process-wide); observe the parser as users run it
    impl.parse("")
except Exception:  # noqa: BLE001 - a broken tree shows up in the cases, not at import
    pass


def kv(t):
    """token text -> (kind, value) (memoised)"""
    try:
        return _KV[t]
    except KeyError:
        r = _KV[t] = S.classify(t)
        return r


# ---------------------------------------------------------------- spaces
# (name, prefix tokens, principal context?)
SEEDS = (
    ("header-start", (), True),
    ("body-start", ("q", ";"), True),
    ("in-seq", ("{",), True),
    ("in-par", ("<",), True),
    ("register-size", ("register", "q", "["), False),
    ("map-index", ("map", "a", "q", "["), False),
    ("map-after-colon-1", ("map", "a", "q", "[", "1", ":"), False),
    ("map-after-colon-2", ("map", "a", "q", "[", ":", "1", ":"), False),
    ("after-gate-name", ("q",), False),
    ("after-gate-arg", ("q", "a"), False),
    ("in-par-seq", ("<", "{"), False),
    ("after-loop-count", ("loop", "1"), False),
    ("after-subcircuit", ("subcircuit",), False),
    ("after-macro-name", ("macro", "a"), False),
    ("in-macro-body", ("macro", "a", "q", "{"), False),
    ("after-from", ("from",), False),
)

# derivable programs (tokens separated by one blank; "\n" is the NL token) covering all productions
POOL = tuple(
    tuple(p.split(" "))
    for p in (
        "register q [ 2 ] \n g q [ 1 ] \n",
        "let n 2 ; let x 0.5 ; register q [ n ] \n map a q [ 1 ] \n g a x",
        "from a.b usepulses * \n from .m usepulses * \n register q [ 1 ]",
        "register q [ 4 ] ; map a q [ : ] ; map b q [ 1 : ] ; map c q [ : 2 ]",
        "let n 1 \n map a q [ : : 2 ] \n map b q [ n : : n ] \n map c q [ 0 : n : 1 ]",
        "register q [ 3 ] \n map a q \n map b q [ n ] \n map c q [ 1 : 3 ] \n g a b c",
        "g \n h a \n k 1 0.5 a q [ 1 ] q [ n ] -2 +3 -0.25 1.5e-3",
        "{ g ; h } \n < g | h > \n { } \n < >",
        "{ g a ; < h | k > ; loop 2 { g } ; subcircuit { h } }",
        "< g | { h ; k } | { } >",
        "< \n g \n | \n h \n >",
        "{ \n ; g \n ; \n h ; \n }",
        "; \n ; g ; ; h \n \n ;",
        "loop 3 { g q [ 0 ] ; h } \n loop n < g | h >",
        "loop 2 { loop 3 { g } ; loop a < h > }",
        "subcircuit { g } \n subcircuit 4 { h ; k } \n subcircuit n { }",
        "subcircuit { subcircuit 2 { g } ; < h | { subcircuit { k } } > }",
        "macro m { } \n macro m2 a { g a } \n macro m3 a b < g a | h b > \n m3 q [ 0 ] q [ 1 ]",
        "macro m a b { g a ; loop b { h a } } ; m q [ 1 ] 2",
        "register q [ 2 ] ; macro m a < { g a ; h } | k > ; loop 2 { m q [ 0 ] }",
        "let n 2 \n register q [ n ] \n loop n { g q [ 0 ] } \n subcircuit n { g q [ 1 ] }",
        "from x usepulses * ; let a 1 ; register q [ a ] ; map b q [ a ] ; g b",
        "{ < { < g > } > }",
        "< { g ; < h | { k } > } | l >",
        "loop 1 < { g } | { h ; k } >",
        "prepare_all \n g q [ 0 ] \n measure_all",
        "register q [ 2 ] \n \n prepare_all \n < Rx q [ 0 ] 0.5 | Rz q [ 1 ] -1.5 > \n measure_all \n",
        "{ g ; } \n { ; g } \n < g | > \n < | g >",
        "{ g \n \n h ; ; k ; \n l }",
        "< g \n \n h | | k | \n l >",
        "macro m < > \n macro k p { < g p | h > } \n k 1",
        "let x -1.5 \n let y +2 \n let z 3.0e2 \n g x y z",
        "map a q [ n ] ; map b a [ 0 : n ] ; map c b [ : n : 2 ]",
        "a.b q [ 1 ] ; pulses.X 0.5",
        "subcircuit 2 { loop 2 { g } ; < h | k > }",
        "loop 2 { subcircuit { g } }",
        "g a [ b ] c [ 1 ] d 2 ; h",
        "register q [ 1 ] ; register r [ n ] ; let n 3",
        "macro m a b c { } ; macro n < g | h > ; m 1 2 3 ; n",
        "{ subcircuit { } ; loop 1 < > ; < { } > }",
        # every literal position of the grammar in one program
        "register q [ 4 ] ; map a q [ 1 : 3 : 2 ] ; map b q [ 2 ] ; let k 7 ; let y 2.5 ; subcircuit 3 { loop 2 { g 5 1.25 q [ 1 ] } }",
    )
)

# comment bodies (space 4): a block comment is "/*" + body + "*/" (no body contains "*/"), a line
# comment is "//" + body; every body in every comment position, and pairs of comments
BLOCK_BODIES = ("", " c ", "*", "**", "***", " c *", " c **", "* /", "/", "//", "/*", " c\n* c ", "\n")
LINE_BODIES = ("", " c", "/* c", "*/", "/* c */ g", "*", " c //")
_PLAIN = (("B", " c "), ("L", " c"))
assert not any("*/" in b for b in BLOCK_BODIES) and not any("\n" in b for b in LINE_BODIES)

# space 6: bodies of the single comment placed in front of the first offending token
REJ_BLOCK_BODIES = (" c ", "\n", " c\r c ", "\r\n", "\x0b", "\x0c", "\x1c", "\x1d", "\x1e", "\x85", "\u2028", "\u2029 c")
REJ_LINE_BODIES = (" c", "\r", " c\r c", "\x0c c", "\x0b", "\x1c", "\x85", "\u2028 c", "\u2029")
assert not any("*/" in b for b in REJ_BLOCK_BODIES) and not any("\n" in b for b in REJ_LINE_BODIES)

# literal variants (space 5): substituted at every INT / NUMBER token of every pool program
LITERALS = ("0", "-0", "-1", "+2", "00", "10", "0.0", "-0.0", "-0.5", "+1.5", "1.5e3", "2.0E-2", "0.5e+1")


def comment_deviations(toks):
    """All single comment insertions (gap, kind, body): kind B = block comment with blanks around,
    T = block comment tight against both neighbouring tokens, L = line comment (only before an NL
    token or at the end of the text)."""
    n = len(toks)
    out = []
    for g in range(n + 1):
        for b in BLOCK_BODIES:
            out.append((g, "B", b))
        if 0 < g < n:
            for b in BLOCK_BODIES:
                out.append((g, "T", b))
        if g == n or toks[g] == "\n":
            for b in LINE_BODIES:
                out.append((g, "L", b))
    return out


def comment_pair_allowed(a, b, full):
    """May comment b be added after comment a (a rendered first)?"""
    (g1, k1, _b1), (g2, k2, _b2) = a, b
    if k1 == "T" or k2 == "T":
        return False
    if g2 < g1:
        return False
    if g2 == g1 and not (k1 == "B" and k2 in ("B", "L")):
        return False
    return full or (a[1:] in _PLAIN) or (b[1:] in _PLAIN)


def render_comments(toks, cdevs):
    """Canonical layout of the token string with the given comments inserted (in the given order
    inside a gap); raises ValueError on an ill-formed insertion."""
    n = len(toks)
    gaps = {}
    for g, k, b in cdevs:
        if not 0 <= g <= n or k not in ("B", "T", "L") or "*/" in b and k != "L" or "\n" in b and k == "L":
            raise ValueError("bad comment insertion %r" % ((g, k, b),))
        if k == "L" and not (g == n or toks[g] == "\n"):
            raise ValueError("line comment not before a newline: %r" % ((g, k, b),))
        gaps.setdefault(g, []).append((k, b))
    parts = []
    for i in range(n + 1):
        cs = gaps.get(i, ())
        kinds = [k for k, _b in cs]
        if "T" in kinds:
            if len(cs) != 1 or not 0 < i < n:
                raise ValueError("tight comment must be alone in an inner gap")
            g = "/*" + cs[0][1] + "*/"
        else:
            if "L" in kinds[:-1]:
                raise ValueError("line comment must be last in its gap")
            g = "" if i == 0 or (i == n and not cs) else " "
            for k, b in cs:
                g += ("/*" + b + "*/ ") if k == "B" else ("//" + b)
        parts.append(g)
        if i < n:
            parts.append(toks[i])
    return "".join(parts)


def nonpositive_register_size(toks):
    """Does the token string reach a register-size position holding an INT < 1?  (A semantic rule
    of the parser actions, outside this property's alphabet.)"""
    kvs = _model_tokens(toks)
    cfgs = S.recognise(kvs).configs
    for j in range(min(len(kvs), len(cfgs))):
        if cfgs[j][2] == "reg2" and kvs[j][0] == "INT" and kvs[j][1] < 1:
            return True
    return False


def strict_equal(a, b):
    """Trees equal with numbers compared by value, the sign of zero included; bools are no numbers."""
    if isinstance(a, tuple) or isinstance(b, tuple):
        return (isinstance(a, tuple) and isinstance(b, tuple) and len(a) == len(b)
                and all(strict_equal(x, y) for x, y in zip(a, b)))
    if isinstance(a, bool) or isinstance(b, bool) or isinstance(a, str) != isinstance(b, str):
        return False
    if a != b:
        return False
    if isinstance(a, float) and isinstance(b, float) and a == 0.0:
        return repr(a) == repr(b)
    return True

_BY_SIZE = tuple(sorted((a for a in ALPHABET if a != "\n"), key=lambda a: (len(a), a)))

# layout deviation menu: text pieces added to an inter-token gap
_PIECE = {
    "sp": " ",
    "tab": "\t",
    "bc": "/* c */ ",
    "mbc": "/* c\n// /* c */ ",
    "bcT": "/* c */",  # replaces the blank: comment tight against both neighbours
    "lc": "// c /* c",  # only directly before an NL token or the end of the text
    "lcnl": "// c\n",  # comment line at the start of the file
}
_PIECE_ORDER = ("bcT", "sp", "tab", "bc", "mbc", "lcnl", "lc")
_SEP_ALTS = {";": ("\n", "; \n", "\n \n"), "|": ("\n", "| \n", "\n \n")}


def _sep_alternatives(tok, ctxkind):
    if tok == "\n":
        s = "|" if ctxkind == "P" else ";"
        return (s, s + " \n", "\n \n")
    return _SEP_ALTS[tok]


def _model_tokens(toks):
    return [kv(t) for t in toks]


def deviations(toks):
    """All single deviations (position, kind) of the canonical layout of a derivable token string."""
    n = len(toks)
    devs = []
    for i in range(n + 1):
        for k in ("sp", "tab", "bc", "mbc"):
            devs.append((i, k))
        if 0 < i < n:
            devs.append((i, "bcT"))
        if i == n or toks[i] == "\n":
            devs.append((i, "lc"))
        if i == 0:
            devs.append((i, "lcnl"))
    for i, t in enumerate(toks):
        if t in (";", "|", "\n"):
            for a in range(3):
                devs.append((i, "s%d" % a))
    return devs


def render_layout(toks, devs):
    """Text of the token string with the given deviations, or None if they conflict."""
    n = len(toks)
    gaps = {}
    subs = {}
    for pos, kind in devs:
        if kind not in _PIECE and not (kind[0] == "s" and kind[1:].isdigit()) or not 0 <= pos <= n:
            raise ValueError("unknown layout deviation %r" % ((pos, kind),))
        if kind[0] == "s" and kind[1:].isdigit():
            if pos in subs:
                return None
            subs[pos] = int(kind[1:])
        else:
            gaps.setdefault(pos, []).append(kind)
    out = list(toks)
    if subs:
        res = S.recognise(_model_tokens(toks))
        if not res.ok:
            raise ValueError("layout of a non-derivable token string")
        for pos, a in subs.items():
            if not (0 <= pos < n and toks[pos] in (";", "|", "\n") and 0 <= a < 3):
                raise ValueError("not a separator deviation: %r" % ((pos, a),))
            out[pos] = _sep_alternatives(toks[pos], res.configs[pos][1][-1][0])[a]
            if "lc" in gaps.get(pos, ()) and not out[pos].startswith("\n"):
                return None  # the separator would end up inside the line comment
    parts = []
    for i in range(n + 1):
        kinds = gaps.get(i, ())
        if len(set(kinds)) != len(kinds):
            return None
        if i == 0:
            g = ""
        elif i == n:
            g = " " if kinds and "bcT" not in kinds else ""
        else:
            g = "" if "bcT" in kinds else " "
        for k in _PIECE_ORDER:
            if k in kinds:
                g += _PIECE[k]
        parts.append(g)
        if i < n:
            parts.append(out[i])
    return "".join(parts)


# ---------------------------------------------------------------- observation of the implementation
def observe(text, budget=None):
    """-> ('accept', tree) | ('reject', line, column) | ('raise', type name, message) | ('hang',)"""
    try:
        if budget is None:
            r = impl.parse_to_sexpression(text)
        else:
            with fuel(budget):
                r = impl.parse_to_sexpression(text)
    except impl.JaqalParseError as e:
        return ("reject", getattr(e, "line", None), getattr(e, "column", None))
    except OutOfFuel:
        return ("hang",)
    except Exception as e:  # noqa: BLE001 - any other type is exactly what clause (iv) forbids
        return ("raise", type(e).__name__, str(e)[:160])
    return ("accept", render.normalise_sexpr(r))


def _denotes_eof(line, col, text):
    if not isinstance(line, int) or isinstance(line, bool):
        return True  # 'EOF' / None: not a position inside the text
    return (line, col) == S.end_position(text)


def judge(text, verdict, obs):
    """verdict: ('ok', tree) | ('err', offending token index or None for end of input, positions)
    where positions is the set of (line, col) token starts at or after the offending token.
    -> None or (clause, family signature, detail)"""
    o = obs[0]
    if o == "hang":
        return ("non-termination", "hang", "parse_to_sexpression did not finish within its fuel budget")
    if verdict[0] == "ok":
        if o == "accept":
            if obs[1] != verdict[1] or not strict_equal(obs[1], verdict[1]):
                return ("tree-mismatch", "tree", "derivable; grammar tree %r, parser reported %r" % (verdict[1], obs[1]))
            return None
        what = "JaqalParseError at %r:%r" % obs[1:] if o == "reject" else "%s: %s" % obs[1:]
        return ("spurious-reject", obs[1] if o == "raise" else "JaqalParseError", "derivable (tree %r) but the parser raised %s" % (verdict[1], what))
    off, positions, offtext = verdict[1], verdict[2], verdict[3]
    where = "end of input" if off is None else "token #%d %r" % (off, offtext)
    if o == "accept":
        return ("spurious-accept", where if off is None else repr(offtext), "not derivable (first offending: %s) but accepted as %r" % (where, obs[1]))
    if o == "raise":
        return ("reject-wrong-exception-type", "%s@%s" % (obs[1], "eof" if off is None else "token"),
                "not derivable (first offending: %s); expected JaqalParseError, got %s: %s" % (where, obs[1], obs[2]))
    line, col = obs[1], obs[2]
    if (line, col) in positions or _denotes_eof(line, col, text):
        return None
    return ("reject-position", "eof" if off is None else "token",
            "not derivable (first offending: %s); reported position %r:%r is neither the start of a token at or after it %r nor the end of input %r"
            % (where, line, col, sorted(positions), S.end_position(text)))


def _positions_from(texts, k):
    """(line, col) of the tokens k, k+1, .. of a token string laid out with single blanks"""
    off, line, linestart = 0, 1, 0
    pos = set()
    for i, t in enumerate(texts):
        if i >= k:
            pos.add((line, off - linestart + 1))
        if t == "\n":
            line += 1
            linestart = off + 1
        off += len(t) + 1
    return frozenset(pos)


def model_verdict(text):
    """The model's answer for a text, through the reference lexer."""
    toks = S.lex(text)
    res = S.recognise(toks)
    if res.ok:
        return ("ok", res.tree)
    i = res.error_index
    if i >= len(toks):
        return ("err", None, frozenset(), None)
    return ("err", i, frozenset((t.line, t.col) for t in toks[i:]), toks[i].text)


def _budget(text):
    return 40000 + 400 * len(text)


# ---------------------------------------------------------------- the check
class C02(Check):
    id = "C02"
    rule = (
        "space 1: every token string over a 24-token alphabet that keeps one of 16 seed prefixes viable, up to the depth "
        "bound; one case = one viable prefix with all 24 next tokens, its shortest completion and the superset-language "
        "completions of context-offending tokens (non-trivial = the prefix "
        "is viable but not itself derivable, so the verdict depends on the context stack; distinct by token string). "
        "space 2: one case = all deletions/duplications/swaps/replacements at one token of a pool program (non-trivial = "
        "both accepted and rejected mutants occur). space 3: one case = a set of layout deviations of a pool program with "
        "all its one-step extensions (non-trivial = contains a comment or a separator exchange). space 4: one case = one "
        "comment (position, placement, body from 13 block / 7 line bodies) of a pool program alone and paired with every "
        "admissible second comment. space 5: one case = all 13 literal variants at every INT/NUMBER token of a pool "
        "program (non-trivial = some variant is derivable). space 6: one case = the structural near misses at one token of a "
        "pool program, each with one comment (12 block / 9 line bodies incl. \\r \\v \\f FS GS RS NEL LS PS) in every gap up to the "
        "first offending token (non-trivial = some near miss is rejected, so the position clause applies). states = distinct model "
        "configurations (body flag, block stack, statement position); transitions = (prefix configuration, token) shifts tried."
    )
    assumptions = (
        "alphabet: 8 keywords, identifiers, INT, NUMBER with a digit before the point, DOTIDENT, 10 punctuation tokens, NL; "
        "`branch`/case, BININT, `import .. as`, `,` and register sizes < 1 are outside it",
        "an error position that equals the position just past the last character, or a non-integer line such as 'EOF', "
        "denotes the end of input; the end of input is always an acceptable position",
        "header-after-body is a syntax rule: the first offending token is the header keyword",
        "termination of the parser is judged by C16; the bulk of spaces 1 and 3 runs without the fuel meter",
        "parse_to_sexpression is observed with the sly fast path that parse_jaqal_string installs on first use",
        "tokens are separated by at least one blank in spaces 1 and 2 (token gluing such as `1-1` is not explored)",
    )
    FAMILY_CAP = 2  # failures reported per (clause, family) and shard; all are counted

    # ---- bounds -----------------------------------------------------------------
    def bounds(self, tier):
        if tier == "quick":
            return {"alphabet": len(ALPHABET), "seeds": len(SEEDS), "depth": 5, "depth_principal": 6, "tail": 0,
                    "pool_programs": len(POOL), "layout_deviations": 2, "layout3_max_tokens": 0,
                    "block_comment_bodies": len(BLOCK_BODIES), "line_comment_bodies": len(LINE_BODIES),
                    "comment_pairs_all_bodies_max_tokens": 12, "literal_variants": len(LITERALS),
                    "space6_comment_bodies": len(REJ_BLOCK_BODIES) + len(REJ_LINE_BODIES), "space6_mutants": "deletion, duplication, swap"}
        return {"alphabet": len(ALPHABET), "seeds": len(SEEDS), "depth": 7, "depth_principal": 7, "tail": 1,
                "pool_programs": len(POOL), "layout_deviations": 3, "layout3_max_tokens": 16,
                "block_comment_bodies": len(BLOCK_BODIES), "line_comment_bodies": len(LINE_BODIES),
                "comment_pairs_all_bodies_max_tokens": 10 ** 6, "literal_variants": len(LITERALS),
                "space6_comment_bodies": len(REJ_BLOCK_BODIES) + len(REJ_LINE_BODIES), "space6_mutants": "all near misses"}

    def _depth(self, tier, sid):
        b = self.bounds(tier)
        return b["depth_principal"] if SEEDS[sid][2] else b["depth"]

    # ---- enumeration ------------------------------------------------------------
    def shards(self, tier):
        out = []
        for sid, (_name, seed, _pr) in enumerate(SEEDS):
            c0, bad = S.config_after([kv(t)[0] for t in seed])
            assert c0 is not None, ("seed is not viable", seed, bad)
            out.append((1, sid, None))
            for a in ALPHABET:
                r = S.delta(c0, kv(a)[0])
                if r is None:
                    continue
                for b in ALPHABET:
                    if S.delta(r[0], kv(b)[0]) is not None:
                        out.append((1, sid, (a, b)))
        for pid in range(len(POOL)):
            out.append((2, pid))
        for pid in range(len(POOL)):
            for j in range(4):
                out.append((3, pid, j))
        for pid in range(len(POOL)):
            for j in range(4):
                out.append((4, pid, j))
        out.append((5,))
        for pid in range(len(POOL)):
            out.append((6, pid))
        return out

    def cases(self, tier, shard):
        space = shard[0]
        if space == 1:
            return self._cases1(tier, shard[1], shard[2])
        if space == 2:
            return (("nm", shard[1], i) for i in range(len(POOL[shard[1]])))
        if space == 3:
            return self._cases3(tier, shard[1], shard[2])
        if space == 4:
            return self._cases4(tier, shard[1], shard[2])
        if space == 6:
            return (("rejb", shard[1], i, 0 if tier == "quick" else 1) for i in range(len(POOL[shard[1]])))
        return (("lit", pid) for pid in range(len(POOL)))

    def _cases4(self, tier, pid, j):
        full = 1 if len(POOL[pid]) <= self.bounds(tier)["comment_pairs_all_bodies_max_tokens"] else 0
        for i in range(j, len(comment_deviations(POOL[pid])), 4):
            yield ("cmtb", pid, i, full)

    def _cases1(self, tier, sid, first):
        depth = self._depth(tier, sid)
        tail = self.bounds(tier)["tail"]
        cut = depth - tail  # bundles at this depth carry the remaining levels
        assert cut >= 2
        c0, _ = S.config_after([kv(t)[0] for t in SEEDS[sid][1]])
        if first is None:
            yield ("p", sid, (), -1)
            for a in ALPHABET:
                if S.delta(c0, kv(a)[0]) is not None:
                    yield ("p", sid, (a,), -1)
            return
        c, _ = S.config_after([kv(t)[0] for t in first], c0)
        # depth-first, shortest first within a branch
        stack = [(tuple(first), c)]
        while stack:
            toks, c = stack.pop()
            d = len(toks)
            if d >= cut:
                yield ("p", sid, toks, depth - d)
                continue
            yield ("p", sid, toks, -1)
            for a in reversed(ALPHABET):
                r = S.delta(c, kv(a)[0])
                if r is not None:
                    stack.append((toks + (a,), r[0]))

    def _cases3(self, tier, pid, j):
        k = self.bounds(tier)["layout_deviations"]
        nd = len(deviations(POOL[pid]))
        if j == 0:
            yield ("layb", pid, (), 0)
        for i in range(j, nd, 4):
            yield ("layb", pid, (i,), 1)
            if k >= 3 and len(POOL[pid]) <= self.bounds(tier)["layout3_max_tokens"]:
                for i2 in range(i + 1, nd):
                    yield ("layb", pid, (i, i2), 2)

    def all_cases(self, tier):
        for sh in self.shards(tier):
            yield from self.cases(tier, sh)

    def space_sizes(self, tier):
        """Number of bundles / texts per space, computed from the model without running anything."""
        from collections import Counter

        kinds = [kv(a)[0] for a in ALPHABET]
        total_prefixes = total_texts = 0
        per_seed = {}
        for sid, (name, seed, _pr) in enumerate(SEEDS):
            depth = self._depth(tier, sid)
            c0, _ = S.config_after([kv(t)[0] for t in seed])
            cur = Counter({c0: 1})
            npref = ntext = 0
            for d in range(depth + 1):
                nxt = Counter()
                for c, n in cur.items():
                    viable = 0
                    for k in kinds:
                        r = S.delta(c, k)
                        if r is not None:
                            viable += 1
                            nxt[r[0]] += n
                        else:
                            rr = S.delta_relaxed(c, k)
                            if rr is not None and S.close_kinds(rr[0]):
                                ntext += n
                    npref += n
                    dead = len(kinds) - viable
                    ntext += n * (1 + (1 if S.close_kinds(c) else 0) + (len(kinds) if d == depth else dead))
                cur = nxt
            per_seed[name] = (npref, ntext)
            total_prefixes += npref
            total_texts += ntext
        nm = sum(len(p) * (3 + len(ALPHABET)) for p in POOL)
        lay2 = lay3 = 0
        b = self.bounds(tier)
        for p in POOL:
            nd = len(deviations(p))
            lay2 += 1 + nd + nd * (nd - 1) // 2
            if b["layout_deviations"] >= 3 and len(p) <= b["layout3_max_tokens"]:
                lay3 += nd * (nd - 1) * (nd - 2) // 6
        return {"space1_prefixes": total_prefixes, "space1_texts": total_texts, "space1_per_seed": per_seed,
                "space2_texts<=": nm, "space3_texts<=": lay2 + lay3}

    # ---- presentation -------------------------------------------------------------
    def show(self, case):
        k = case[0]
        if k == "text":
            return case[1]
        if k == "lay":
            return {"tokens": S.join(case[1]), "deviations": [list(d) for d in case[2]], "text": render_layout(case[1], case[2])}
        if k == "p":
            return "space1 seed=%s prefix=%r + every next token%s" % (
                SEEDS[case[1]][0], S.join(SEEDS[case[1]][1] + tuple(case[2])), " (inner prefix)" if case[3] < 0 else " (%d more levels)" % case[3])
        if k == "nm":
            return "space2 near misses at token %d of %r" % (case[2], S.join(POOL[case[1]]))
        if k == "cmt":
            return {"tokens": S.join(case[1]), "comments": [list(d) for d in case[2]], "text": render_comments(case[1], case[2])}
        if k == "cmtb":
            c = comment_deviations(POOL[case[1]])[case[2]]
            return "space4 %r with comment %r alone and with every second comment%s" % (
                S.join(POOL[case[1]]), c, "" if case[3] else " (one of the two with a plain body)")
        if k == "hdrfull":
            return {"header-only parse, then full parse of": case[1]}
        if k == "rejb":
            return "space6 near misses at token %d of %r with one comment in front of the error" % (case[2], S.join(POOL[case[1]]))
        if k == "lit":
            return "space5 every literal variant at every INT/NUMBER token of %r" % (S.join(POOL[case[1]]),)
        if k == "layb":
            d = deviations(POOL[case[1]])
            return "space3 layouts of %r with deviations %r%s" % (
                S.join(POOL[case[1]]), [d[i] for i in case[2]], " + one more" if case[3] else "")
        return repr(case)

    # ---- shrinking ------------------------------------------------------------------
    def shrink(self, case):
        k = case[0]
        if k == "text":
            text = case[1]
            lx = [x for x in S.lexemes(text) if x.cls != "blank"]
            seen = {text}

            def mk(items):
                # tokens and comments separated by one blank; a line comment needs its newline
                s = ""
                for j, x in enumerate(items):
                    if j:
                        s += " "
                    s += x
                return s

            def need_nl(items):
                out = []
                for j, x in enumerate(items):
                    out.append(x)
                    if x.startswith("//") and j + 1 < len(items) and items[j + 1] != "\n":
                        out.append("\n")
                return out

            items = [x.text for x in lx]
            cands = []
            # drop a contiguous run (halves first, then single lexemes)
            n = len(items)
            size = n // 2
            while size >= 1:
                for i in range(0, n - size + 1, size):
                    cands.append(items[:i] + items[i + size:])
                size //= 2
            # drop two lexemes at once (matching brackets, keyword + operand)
            if n <= 14:
                for i in range(n):
                    for j in range(i + 2, n):
                        cands.append(items[:i] + items[i + 1:j] + items[j + 1:])
            # simplify a lexeme
            for i, x in enumerate(items):
                simple = None
                if x.startswith("/*") and x != "/* c */":
                    simple = "/* c */"
                elif x.startswith("//") and x != "// c":
                    simple = "// c"
                if simple is not None:
                    cands.append(items[:i] + [simple] + items[i + 1:])
            cands.append(items)  # canonical spacing
            # replace a token by a smaller alphabet token (funnels equivalent failures into one identity)
            for i, x in enumerate(items):
                if x.startswith("/*") or x.startswith("//"):
                    continue
                for a in _BY_SIZE:
                    if (len(a), a) >= (len(x), x):
                        break
                    cands.append(items[:i] + [a] + items[i + 1:])
            for c in cands:
                s = mk(need_nl(c))
                if s not in seen and (len(s), s) < (len(text), text):
                    seen.add(s)
                    yield ("text", s)
        elif k in ("lay", "cmt"):
            toks, devs = case[1], case[2]
            for i in range(len(devs)):
                yield (k, toks, devs[:i] + devs[i + 1:])

    # ---- execution ------------------------------------------------------------------
    def _report(self, ctx, fam_clause, sig, detail, case):
        key = "failing_texts[%s|%s]" % (fam_clause, sig)
        n = ctx.extra[key]
        ctx.count(key)
        ctx.outcome("FAIL:" + fam_clause)
        if n < self.FAMILY_CAP:
            ctx.fail(fam_clause, detail, case=case)

    def check_text(self, text, ctx, with_fuel=True):
        """Clauses (i), (ii), (iv) on one text; returns (model verdict, observation)."""
        verdict = model_verdict(text)
        obs = observe(text, _budget(text) if with_fuel else None)
        ctx.trace()
        bad = judge(text, verdict, obs)
        if bad is None:
            ctx.outcome("accept" if verdict[0] == "ok" else ("reject@eof" if verdict[1] is None else "reject@token"))
        else:
            self._report(ctx, bad[0], bad[1], bad[2], ("text", text))
        return verdict, obs

    def run_case(self, case, ctx):
        k = case[0]
        if k == "text":
            self.check_text(case[1], ctx)
        elif k == "lay":
            self._run_layout(tuple(case[1]), tuple(tuple(d) for d in case[2]), ctx, None)
        elif k == "p":
            self._run_prefix(case, ctx)
        elif k == "nm":
            self._run_near_misses(case, ctx)
        elif k == "layb":
            self._run_layout_bundle(case, ctx)
        elif k == "cmt":
            toks, cdevs = tuple(case[1]), tuple(tuple(d) for d in case[2])
            self._check_variant(toks, render_comments(toks, cdevs), ("cmt", toks, cdevs), ctx, None, False)
        elif k == "cmtb":
            self._run_comment_bundle(case, ctx)
        elif k == "lit":
            self._run_literals(case, ctx)
        elif k == "rejb":
            self._run_reject_comments(case, ctx)
        elif k == "hdrfull":
            text = case[1]
            first = observe(text, _budget(text))
            try:
                impl.parse_jaqal_string_header(text)
            except Exception:  # noqa: BLE001
                pass
            again = observe(text, _budget(text))
            ctx.trace(2)
            verdict = model_verdict(text)
            bad = judge(text, verdict, again)
            if bad is not None or again != first:
                self._report(ctx, "header-parse-changes-result", "header-then-full",
                             "after a header-only parse of the same text the full parse gives %r (a fresh full parse: %r)" % (again, first), case)
        else:
            raise ValueError("unknown case %r" % (case,))

    # space 1 ---------------------------------------------------------------------------
    def _fast(self, text, verdict, ctx):
        """Judge one space-1 text with the incrementally computed verdict; a failure is re-derived
        through the generic path so that it replays as ("text", s)."""
        obs = observe(text)
        bad = judge(text, verdict, obs)
        if bad is None:
            ctx.outcome("accept" if verdict[0] == "ok" else ("reject@eof" if verdict[1] is None else "reject@token"))
            return
        v2 = model_verdict(text)
        if v2[:2] != verdict[:2] or (v2[0] == "err" and not verdict[2] <= v2[2]):
            raise AssertionError("incremental and generic model verdicts differ on %r: %r vs %r" % (text, verdict, v2))
        bad = judge(text, v2, obs)
        self._report(ctx, bad[0], bad[1], bad[2], ("text", text))

    def _prefix_state(self, sid, toks):
        config, vs = S.INITIAL, S.BUILD0
        for t in SEEDS[sid][1] + tuple(toks):
            kind, value = kv(t)
            r = S.delta(config, kind)
            if r is None:
                raise ValueError("bundle prefix is not viable: %r" % (SEEDS[sid][1] + tuple(toks),))
            config = r[0]
            if r[1]:
                vs = S.build_step(vs, r[1], value)
        return config, vs

    def prefix_texts(self, base, config, vs, full):
        """The texts of one bundle with the model's verdict for each (no implementation involved)."""
        text_p = " ".join(base)
        lead = text_p + " " if base else ""
        eofv = ("err", None, frozenset(), None)
        out = [(text_p, ("ok", S.build_finish(config, vs)) if S.eof_ok(config) else eofv)]
        ck = S.close_kinds(config)
        if ck:
            c2, v2 = config, vs
            for kd in ck:
                t = S.kind_text(kd)
                r = S.delta(c2, kd)
                c2 = r[0]
                if r[1]:
                    v2 = S.build_step(v2, r[1], kv(t)[1])
            out.append((lead + " ".join(S.kind_text(kd) for kd in ck), ("ok", S.build_finish(c2, v2))))
        off = len(lead)
        line = lead.count("\n") + 1
        col = off - lead.rfind("\n")
        children = []
        for t in ALPHABET:
            kind, value = kv(t)
            r = S.delta(config, kind)
            if r is None:
                out.append((lead + t, ("err", len(base), frozenset(((line, col),)), t)))
                rr = S.delta_relaxed(config, kind)
                if rr is not None:
                    # offending only because of its context: a parser that shifts it anyway is
                    # exposed by accepting the text completed in the superset language
                    ck2 = S.close_kinds(rr[0])
                    if ck2:
                        full_toks = base + (t,) + tuple(S.kind_text(kd) for kd in ck2)
                        out.append((" ".join(full_toks), ("err", len(base), _positions_from(full_toks, len(base)), t)))
                continue
            c2 = r[0]
            children.append((t, c2))
            if full:
                if S.eof_ok(c2):
                    v2 = S.build_step(vs, r[1], value) if r[1] else vs
                    out.append((lead + t, ("ok", S.build_finish(c2, v2))))
                else:
                    out.append((lead + t, eofv))
        return out, children

    def _run_prefix(self, case, ctx):
        """tail = -1: an inner prefix (its viable extensions are bundles of their own): p, p.close(p)
        and p.t for the non-viable t.  tail = k >= 0: the same for this prefix and its viable
        extensions k levels down, the last level running p.t for every t."""
        _, sid, toks, tail = case
        toks = tuple(toks)
        config, vs = self._prefix_state(sid, toks)
        todo = [(SEEDS[sid][1] + toks, config, vs, tail)]
        while todo:
            base, config, vs, left = todo.pop()
            full = left == 0
            texts, children = self.prefix_texts(base, config, vs, full)
            ctx.state(config)
            ctx.transition(len(ALPHABET))
            ctx.trace(len(texts))
            for text, verdict in texts:
                self._fast(text, verdict, ctx)
            if full:
                for _t, c2 in children:
                    ctx.state(c2)
            elif left > 0:
                for t, c2 in reversed(children):
                    kind, value = kv(t)
                    r = S.delta(config, kind)
                    v2 = S.build_step(vs, r[1], value) if r[1] else vs
                    todo.append((base + (t,), c2, v2, left - 1))
        if not S.eof_ok(self._prefix_state(sid, toks)[0]):
            ctx.nontriv((sid, toks))

    # space 2 ---------------------------------------------------------------------------
    def near_misses(self, toks, i):
        out = [toks[:i] + toks[i + 1:], toks[:i + 1] + toks[i:]]
        if i + 1 < len(toks) and toks[i] != toks[i + 1]:
            out.append(toks[:i] + (toks[i + 1], toks[i]) + toks[i + 2:])
        for a in ALPHABET + ("0",):
            if a != toks[i]:
                out.append(toks[:i] + (a,) + toks[i + 1:])
        return [m for m in out if not nonpositive_register_size(m)]

    def _run_near_misses(self, case, ctx):
        _, pid, i = case
        toks = POOL[pid]
        if i == 0:
            v, _o = self.check_text(S.join(toks), ctx)
            if v[0] != "ok":
                raise AssertionError("pool program %d is not derivable: %r" % (pid, v))
        kinds = set()
        for m in self.near_misses(toks, i):
            text = S.join(m)
            v, _o = self.check_text(text, ctx)
            kinds.add(v[0])
            cfgs = S.recognise(_model_tokens(m)).configs
            ctx.state(cfgs[-1])
            ctx.transition(len(m))
        if len(kinds) == 2:
            ctx.nontriv((pid, i))

    # space 3 ---------------------------------------------------------------------------
    def _run_layout(self, toks, devs, ctx, canon, bundle=False):
        """One layout; canon = (model tree, observation of the canonical layout) or None."""
        text = render_layout(toks, devs)
        if text is None:
            return False
        return self._check_variant(toks, text, ("lay", toks, devs), ctx, canon, bundle)

    def _check_variant(self, toks, text, narrow, ctx, canon, bundle):
        """`text` is a layout of the derivable token string `toks`: clauses (i)-(iv)."""
        if canon is None:
            ctext = S.join(toks)
            cv = model_verdict(ctext)
            if cv[0] != "ok":
                raise ValueError("layout case over a non-derivable token string %r" % (ctext,))
            canon = (cv[1], observe(ctext, _budget(ctext)))
            ctx.trace()
        verdict, obs = self.check_text(text, ctx, with_fuel=bundle is False)
        if verdict != ("ok", canon[0]):
            raise AssertionError("the model does not regard %r as a layout of %r: %r" % (text, S.join(toks), verdict))
        if obs != canon[1] and obs[0] == "accept" and obs[1] == verdict[1]:
            # the variant is right and the canonical layout is not: clause (iii) on its own
            self._report(ctx, "layout-changes-result", "canonical", "layout %r gives %r, the canonical layout %r gives %r"
                         % (text, obs, S.join(toks), canon[1]), narrow)
        return True

    def _canonical(self, toks, ctx):
        ctext = S.join(toks)
        cv = model_verdict(ctext)
        if cv[0] != "ok":
            raise AssertionError("pool program is not derivable: %r %r" % (ctext, cv))
        ctx.trace()
        return (cv[1], observe(ctext, _budget(ctext)))

    # space 4 ---------------------------------------------------------------------------
    def _run_comment_bundle(self, case, ctx):
        _, pid, i, full = case
        toks = POOL[pid]
        C = comment_deviations(toks)
        a = C[i]
        canon = self._canonical(toks, ctx)
        self._check_variant(toks, render_comments(toks, (a,)), ("cmt", toks, (a,)), ctx, canon, True)
        for b in C:
            if comment_pair_allowed(a, b, full):
                self._check_variant(toks, render_comments(toks, (a, b)), ("cmt", toks, (a, b)), ctx, canon, True)
        ctx.transition(len(toks))
        ctx.nontriv(("cmt", pid, i))

    # space 6 ---------------------------------------------------------------------------
    def _run_reject_comments(self, case, ctx):
        _, pid, i, allrep = case
        toks = POOL[pid]
        mutants = self.near_misses(toks, i) if allrep else self.near_misses(toks, i)[:3]
        if i == 0:
            mutants = [toks] + mutants
        rejected = 0
        for m in mutants:
            m = tuple(m)
            res = S.recognise(_model_tokens(m))
            last = len(m) if res.ok else min(res.error_index, len(m))
            rejected += 0 if res.ok else 1
            for g in range(last + 1):
                for b in REJ_BLOCK_BODIES:
                    self.check_text(render_comments(m, ((g, "B", b),)), ctx, with_fuel=False)
                if g == len(m) or m[g] == "\n":
                    for b in REJ_LINE_BODIES:
                        self.check_text(render_comments(m, ((g, "L", b),)), ctx, with_fuel=False)
            ctx.transition(len(m))
        if rejected:
            ctx.nontriv(("rejb", pid, i))

    # space 5 ---------------------------------------------------------------------------
    def _run_literals(self, case, ctx):
        _, pid = case
        toks = POOL[pid]
        canon = self._canonical(toks, ctx)
        # the header of the same text read on its own first (header-only parse), then the full parse again: no
        # statement of the body may be dropped because the header was looked at before
        ctext = S.join(toks)
        try:
            impl.parse_jaqal_string_header(ctext)
        except Exception:  # noqa: BLE001 - what a header-only parse may raise is C16's business
            pass
        ctx.trace()
        again = observe(ctext, _budget(ctext))
        if again != canon[1]:
            self._report(ctx, "header-parse-changes-result", "header-then-full",
                         "after a header-only parse of the same text the full parse gives %r, before it gave %r" % (again, canon[1]),
                         ("hdrfull", ctext))
        hit = False
        for j, t in enumerate(toks):
            if kv(t)[0] not in ("INT", "NUMBER"):
                continue
            for lit in LITERALS:
                m = toks[:j] + (lit,) + toks[j + 1:]
                if lit == t or nonpositive_register_size(m):
                    continue
                v, _o = self.check_text(S.join(m), ctx)
                hit = hit or v[0] == "ok"
                ctx.transition()
        if hit:
            ctx.nontriv(("lit", pid))

    def _run_layout_bundle(self, case, ctx):
        _, pid, idxs, extra = case
        toks = POOL[pid]
        D = deviations(toks)
        base = tuple(D[i] for i in idxs)
        ctext = S.join(toks)
        cv = model_verdict(ctext)
        if cv[0] != "ok":
            raise AssertionError("pool program %d is not derivable: %r" % (pid, cv))
        canon = (cv[1], observe(ctext, _budget(ctext)))
        ctx.trace()
        if extra != 2:
            self._run_layout(toks, base, ctx, canon, True)
        if extra:
            for j in range((max(idxs) + 1) if idxs else 0, len(D)):
                self._run_layout(toks, base + (D[j],), ctx, canon, True)
        ctx.transition(len(toks))
        ctx.state(S.recognise(_model_tokens(toks)).configs[-1])
        if any(k not in ("sp", "tab") for _p, k in base):
            ctx.nontriv((pid, tuple(idxs), extra))

    # ---- model self-check --------------------------------------------------------------
    def selfcheck(self):
        stats = S.selfcheck(maxlen=7, full_maxlen=6)
        for pid, toks in enumerate(POOL):
            res = S.recognise(_model_tokens(toks))
            assert res.ok, ("pool program not derivable", pid, res.error_index)
            assert [t.text for t in S.lex(S.join(toks))] == list(toks), ("lexer does not give back the tokens", pid)
            for d in deviations(toks):
                text = render_layout(toks, (d,))
                assert text is not None and model_verdict(text) == ("ok", res.tree), ("deviation changes the model tree", pid, d)
            if len(toks) <= 9:  # every comment insertion leaves the model's tokens (hence its tree) alone
                C = comment_deviations(toks)
                for a in C:
                    assert model_verdict(render_comments(toks, (a,))) == ("ok", res.tree), ("comment changes the model tree", pid, a)
                    for b in C:
                        if comment_pair_allowed(a, b, 1):
                            assert [t.text for t in S.lex(render_comments(toks, (a, b)))] == list(toks), (pid, a, b)
        for lit in LITERALS:
            assert len(S.lex(lit)) == 1 and S.lex(lit)[0].kind in ("INT", "NUMBER"), lit
        assert strict_equal((1, ("a", 0.0)), (1.0, ("a", 0.0))) and not strict_equal((0.0,), (-0.0,)) and not strict_equal(("",), (0,))
        # incremental (space 1) verdicts == generic verdicts through the reference lexer
        n = 0
        for sid in range(len(SEEDS)):
            for case in self._cases1("quick", sid, None):
                config, vs = self._prefix_state(sid, case[2])
                texts, _ch = self.prefix_texts(SEEDS[sid][1] + tuple(case[2]), config, vs, True)
                for text, v in texts:
                    g = model_verdict(text)
                    assert g[:2] == v[:2] and (g[0] == "ok" or (v[2] <= g[2] and g[3] == v[3])), (text, v, g)
                    n += 1
        stats["incremental_vs_generic"] = n
        return stats


CHECK = C02()
