"""C06 - every qubit reference resolves to the right physical qubit through aliases.

Space (product-exhaustive): register size 1..N; alias chains of depth 1-2 (thorough 3) whose links
are {whole alias, single qubit i, slice(lo, hi, st)} with lo, hi in {absent, 0..len} and st in
{absent, 1, 2, 3, -1}, written as literals and - for every non-absent bound - as a let; every
index into the last link; the reference written at top level, inside a macro body, passed as a
macro argument, and reached by indexing a register-valued macro parameter.
Oracle: the model's own arithmetic (element i of src[lo:hi:st] is element lo+i*st of src,
composed along the chain) gives (q, idx); four consumers must agree with it:
  resolve   NamedQubit.resolve_qubit() of the parsed reference
  fill-map  fill_in_map rewrites the reference to q[idx] and leaves the denotation unchanged
  used      get_used_qubit_indices(statement / circuit) == {q: {idx}}
  emulator  X on the reference gives basis state 2^idx, and X ref; CX ref q[j] gives 2^idx + 2^j
"""
import itertools

from mc import impl, gates
from mc.framework import Check
from mc.fuel import fuel, OutOfFuel
from mc.ref import render, abstraction, ast as A
from mc.ref.meaning import Model, Invalid

NATIVES = {k: v[0] for k, v in gates.SIGS.items()}
NAMES = ("a", "b", "c")
STEPS = (None, 1, 2, 3, -1)


def link_forms(n):
    """all link forms over a source of length n, with the resulting index list (model
    arithmetic), keeping those with every element inside and plain bounds"""
    yield ("whole",), list(range(n))
    for i in range(n):
        yield ("single", i), [i]
    for lo in [None] + list(range(n + 1)):
        for hi in [None] + list(range(n + 1)):
            for st in STEPS:
                l = 0 if lo is None else lo
                h = n if hi is None else hi
                s = 1 if st is None else st
                idx = list(range(l, h, s))
                if not idx or any(not 0 <= j < n for j in idx):
                    continue
                yield ("slice", lo, hi, st), idx


def chains(n, depth):
    """-> (links, phys) where phys[i] = index in q of element i of the last alias;
    a chain ending in a 'single' link has phys of length 1 and is referenced by name"""
    def rec(cur_phys, d):
        for form, idx in link_forms(len(cur_phys)):
            phys = [cur_phys[j] for j in idx]
            yield (form,), phys
            if d > 1 and form[0] != "single":
                for rest, p2 in rec(phys, d - 1):
                    yield (form,) + rest, p2
    for d in range(1, depth + 1):
        for links, phys in rec(list(range(n)), d):
            if len(links) == d:
                yield links, phys


def let_variants(links, tier):
    """for each non-absent slice bound / single index: literal or let - all combinations for
    depth-1 chains, 'all lets' and 'all literals' otherwise"""
    slots = []
    for li, f in enumerate(links):
        if f[0] == "single":
            slots.append((li, 1))
        elif f[0] == "slice":
            for pos in (1, 2, 3):
                if f[pos] is not None:
                    slots.append((li, pos))
    if not slots:
        yield ()
        return
    if len(links) == 1:
        for r in range(len(slots) + 1):
            for sub in itertools.combinations(slots, r):
                yield sub
    else:
        yield ()
        yield tuple(slots)


def build_header(n, links, letslots, size_let=False):
    lets = []
    header = []
    if size_let:
        lets.append(("let", "sz", n))
    header.append(("register", "q", "sz" if size_let else n))
    src = "q"
    for li, f in enumerate(links):
        name = NAMES[li]

        def val(pos):
            v = f[pos]
            if (li, pos) in letslots:
                ln = "l%d%d" % (li, pos)
                lets.append(("let", ln, v))
                return ln
            return v

        if f[0] == "whole":
            header.append(("map", name, src))
        elif f[0] == "single":
            header.append(("map", name, src, val(1)))
        else:
            header.append(("map", name, src, val(1) if f[1] is not None else None, val(2) if f[2] is not None else None,
                           val(3) if f[3] is not None else None))
        src = name
    return tuple(lets) + tuple(header), src


PLACEMENTS = ("top", "macro-body", "macro-arg", "register-param")


class C06(Check):
    id = "C06"
    nshards = 64
    rule = (
        "register size x alias chains (depth <= D, every link form: whole / single / slice over all lo, hi in {absent, 0..len}, "
        "st in {absent,1,2,3,-1}) x literal-or-let spelling of the bounds x every index into the last link x 4 placements; "
        "non-trivial = the physical index differs from the written index; distinct by canonical text"
    )
    assumptions = (
        "only chains the model finds valid (non-empty, every element inside its source, bounds not beyond the source) are judged here; the rest is C14's",
        "the pyGSTi circuit generator refuses every circuit that declares an alias, so it is not a fifth consumer",
    )

    def bounds(self, tier):
        if tier == "quick":
            return {"sizes": [1, 2, 3, 4], "depth": 2, "depth2_max_size": 4}
        return {"sizes": [1, 2, 3, 4, 5], "depth": 3, "depth2_max_size": 5, "depth3_max_size": 3}

    def all_cases(self, tier):
        b = self.bounds(tier)
        for n in b["sizes"]:
            depth = 1
            if n <= b["depth2_max_size"]:
                depth = 2
            if n <= b.get("depth3_max_size", 0):
                depth = 3
            for links, phys in chains(n, depth):
                for letslots in let_variants(links, tier):
                    if links[-1][0] == "single":
                        yield (n, links, letslots, None)
                    else:
                        for i in range(len(phys)):
                            yield (n, links, letslots, i)

    def show(self, case):
        n, links, letslots, i = case
        header, last = build_header(n, links, set(map(tuple, letslots)))
        ref = last if i is None else "%s[%d]" % (last, i)
        return {"header": render.text(("prog", header, ())), "reference": ref}

    def shrink(self, case):
        n, links, letslots, i = case
        if letslots:
            yield (n, links, (), i)
        if i:
            yield (n, links, letslots, 0)

    def run_case(self, case, ctx):
        n, links, letslots, i = case
        letslots = set(tuple(x) for x in letslots)
        header, last = build_header(n, links, letslots, size_let=bool(letslots) and len(links) == 1)
        ref = last if i is None else A.item(last, i)
        # ---- model
        probe = A.prog(header, (A.gate("X", ref),))
        m = Model(probe, NATIVES)
        try:
            d = m.den()
        except Invalid as e:
            ctx.outcome("model-invalid:" + e.reason)
            return
        (_g, _n, (qv,)) = d[1][0]
        idx = qv[2]
        written = i if i is not None else links[-1][1]
        if idx != written:
            ctx.nontriv(render.text(probe))
        ctx.state((n, links, i))
        ng = gates.native_gates()
        for place in PLACEMENTS:
            if place == "top":
                body = (A.gate("X", ref),)
            elif place == "macro-body":
                body = (A.macro("mb", (), A.seq(A.gate("X", ref))), A.gate("mb"))
            elif place == "macro-arg":
                body = (A.macro("ma", ("p",), A.seq(A.gate("X", "p"))), A.gate("ma", ref))
            else:
                if i is None:
                    continue
                body = (A.macro("mr", ("r", "k"), A.seq(A.gate("X", A.item("r", "k")))), A.gate("mr", last, i))
            p = A.prog(header, body)
            text = render.text(p)
            ctx.trace()
            try:
                c = impl.parse(text, inject_pulses=ng)
            except Exception as ex:  # noqa: BLE001
                ctx.fail("parse-raises", "[%s] %s: %s\n%s" % (place, type(ex).__name__, ex, text))
                continue
            ctx.transition()
            # 1. resolve_qubit on the written reference (top level only: that is where the object is)
            if place == "top":
                q = list(c.body.statements[0].parameters.values())[0]
                try:
                    reg, got = q.resolve_qubit()
                    if reg.name != "q" or got != idx:
                        ctx.fail("resolve", "resolve_qubit gives (%s, %r), model (q, %d)" % (reg.name, got, idx))
                except Exception as ex:  # noqa: BLE001
                    ctx.fail("resolve-raises", "%s: %s" % (type(ex).__name__, ex))
            # 2. fill_in_map (after lets and macros are gone, as parse(expand_let_map) does)
            try:
                fm = impl.fill_in_map(impl.expand_macros(impl.fill_in_let(c)))
                st = fm.body.statements[0]
                while not isinstance(st, impl.GateStatement):
                    st = st.statements[0]
                q2 = list(st.parameters.values())[0]
                ok = (isinstance(q2, impl.NamedQubit) and isinstance(q2.alias_from, impl.Register)
                      and q2.alias_from.alias_from is None and q2.alias_from.name == "q" and q2.alias_index == idx)
                if not ok:
                    ctx.fail("fill-map", "[%s] fill_in_map leaves %r, model q[%d]" % (place, q2, idx))
                if abstraction.den(fm) != m.den() and place == "top":
                    ctx.fail("fill-map-meaning", "[%s] denotation changed: %r" % (place, abstraction.den(fm)))
            except Exception as ex:  # noqa: BLE001
                ctx.fail("fill-map-raises", "[%s] %s: %s" % (place, type(ex).__name__, ex))
            # 3. used qubits
            try:
                u = impl.get_used_qubit_indices(c)
                u = {k: set(v) for k, v in u.items() if v}
                if u != {"q": {idx}}:
                    ctx.fail("used-qubits", "[%s] circuit: %r, model {q: {%d}}" % (place, u, idx))
                if place == "top":
                    us = impl.get_used_qubit_indices(c.body.statements[0])
                    us = {k: set(v) for k, v in us.items() if v}
                    if us != {"q": {idx}}:
                        ctx.fail("used-qubits", "[%s] statement: %r, model {q: {%d}}" % (place, us, idx))
            except Exception as ex:  # noqa: BLE001
                ctx.fail("used-qubits-raises", "[%s] %s: %s" % (place, type(ex).__name__, ex))
            # 4. emulator
            j = (idx + 1) % n
            extra = (A.gate("CX", ref, A.item("q", j)),) if (n >= 2 and place == "top") else ()
            macros = tuple(s for s in body if s[0] == "macro")
            stmts = tuple(s for s in body if s[0] != "macro")
            prog = A.prog(header, macros + (A.gate("prepare_all"),) + stmts + extra + (A.gate("measure_all"),))
            want_state = (1 << idx) | ((1 << j) if extra else 0)
            try:
                with fuel(300000 + 40000 * 4 ** n):
                    r = impl.run_jaqal_circuit(impl.parse(render.text(prog), inject_pulses=ng))
                probs = [float(x) for x in r.subcircuits[0].simulated_probability_by_int]
                got_state = max(range(len(probs)), key=lambda k: probs[k])
                if abs(probs[got_state] - 1) > 1e-9 or got_state != want_state:
                    ctx.fail("emulator", "[%s] outcome %d (p=%.3f), model %d" % (place, got_state, probs[got_state], want_state))
            except OutOfFuel:
                ctx.fail("emulator-hangs", "[%s]" % place)
            except Exception as ex:  # noqa: BLE001
                ctx.fail("emulator-raises", "[%s] %s: %s" % (place, type(ex).__name__, ex))
        # ---- an override that moves the INNER link of a chain while the outer link is written with literals
        if not letslots and len(links) >= 2 and links[0][0] == "slice" and links[0][1] is not None:
            self.override_inner(n, links, i, ng, ctx)
        ctx.outcome("depth%d:%s" % (len(links), links[-1][0]))


CANON_FROZEN_STOP = (2, (("slice", 0, 2, None), ("slice", 0, None, None)), (), 0)


def _override_inner(self, n, links, i, ng, ctx):
    hdr, last2 = build_header(n, links, {(0, 1)})
    ref2 = last2 if i is None else A.item(last2, i)
    prog2 = A.prog(hdr, (A.gate("prepare_all"), A.gate("X", ref2), A.gate("measure_all")))
    m2 = Model(prog2, NATIVES)
    for delta in (1, -1):
        ov = {"l01": links[0][1] + delta}
        try:
            d2 = m2.den(ov)
        except Invalid:
            continue
        idx2 = [g for g in d2[1] if g[1] == "X"][0][2][0][2]
        ctx.transition()
        ctx.trace()
        problem = None
        try:
            c2 = impl.parse(render.text(prog2), inject_pulses=ng)
            f2 = impl.fill_in_let(c2, ov)
            q2 = list(f2.body.statements[1].parameters.values())[0]
            got2 = q2.resolve_qubit()[1]
            if got2 != idx2:
                problem = "override %r: resolve_qubit gives %r, model %d" % (ov, got2, idx2)
            u2 = {k: set(v) for k, v in impl.get_used_qubit_indices(f2.body.statements[1]).items() if v}
            if problem is None and u2 != {"q": {idx2}}:
                problem = "override %r: used qubits %r, model {q: {%d}}" % (ov, u2, idx2)
            with fuel(300000 + 40000 * 4 ** n):
                r2 = impl.run_jaqal_circuit(f2)
            pr = [float(x) for x in r2.subcircuits[0].simulated_probability_by_int]
            if problem is None and abs(pr[1 << idx2] - 1) > 1e-9:
                problem = "override %r: emulator outcome %d, model %d" % (ov, max(range(len(pr)), key=lambda k: pr[k]), 1 << idx2)
        except OutOfFuel:
            problem = "override %r: emulation does not terminate" % (ov,)
        except Exception as ex:  # noqa: BLE001
            problem = "override %r: %s: %s" % (ov, type(ex).__name__, ex)
        if problem is None:
            continue
        # Known defect family (KNOWN_FINDINGS.txt): an OMITTED stop of an alias over another alias is frozen at parse
        # time to the source's size under the declared constants, so after an override that changes the source's
        # length the outer alias no longer ends where its source ends.  Identified by that shape (some later link is a
        # slice without a stop) and reported against the canonical minimal chain, provided that chain fails right now.
        frozen = any(l[0] == "slice" and l[2] is None for l in links[1:])
        if frozen and (n, links, (), i) != CANON_FROZEN_STOP and self.canonical_frozen_stop_fails(ng):
            ctx.fail("override-inner-link", problem, case=CANON_FROZEN_STOP)
        else:
            ctx.fail("override-inner-link", problem)


_CANON = {}


def _canonical_frozen_stop_fails(self, ng):
    if "v" not in _CANON:
        from mc.framework import Ctx
        sub = Ctx()
        sub._case = CANON_FROZEN_STOP
        n, links, _ls, i = CANON_FROZEN_STOP
        _override_inner(self, n, links, i, ng, sub)
        _CANON["v"] = any(c == "override-inner-link" for c, _k, _d in sub.failures)
    return _CANON["v"]


C06.override_inner = _override_inner
C06.canonical_frozen_stop_fails = _canonical_frozen_stop_fails

CHECK = C06()

if __name__ == "__main__":
    for t in ("quick", "thorough"):
        print(t, sum(1 for _ in CHECK.all_cases(t)))
