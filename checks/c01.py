"""C01 - generated Jaqal text parses back to the same circuit (round trip).

Spaces (all exhaustive within their bound; every case is a program AST + how it is built):
 lit   every literal of a structured alphabet (ints of all magnitudes and signs, floats
       m*10^e for e in -30..30 walking repr() across every switch between positional and
       exponent notation, +-0.0, denormal min, float max, 0.1, 1/3) in every literal position
       (let value, gate argument, loop / subcircuit count, register size, qubit index,
       single-alias index, slice bounds);
 hdr   the 27 slice shapes (start/stop/step each absent / literal / let) x alias chains of
       depth 1-2 x register sized by literal / let x 0-2 usepulses;
 prog  the shared tree-exhaustive pool and <= k-deviation neighbourhoods (macros with every
       parameter use, nested seq/par/loop/subcircuit);
 each built by parsing text AND through the S-expression builder; the literal programs also through the
 builder with every float given as a numpy.float64 (a float subclass whose repr is not a Jaqal number).
Oracle: t = generate(c); c2 = parse(t) does not raise; c2 == c and c == c2; the symbolic form
       and denotation read from c2's IR equal those of c and of the reference model;
       generate(c2) == t byte for byte.
"""
import itertools

from mc import impl
from mc.progcheck import ProgramCheck
from mc.ref import render, abstraction, universe as U, ast as A
from mc.ref.meaning import Model, Invalid

# ---------------------------------------------------------------- literal alphabet
INTS = (0, 1, -1, 7, -12, 2 ** 31, 10 ** 16, 10 ** 22)


def float_alphabet(tier):
    ms = (1.0, 1.5, 9.99, 1.2345678901234567)
    es = range(-30, 31) if tier != "quick" else range(-24, 25, 1)
    out = []
    for e in es:
        for m in ms:
            out.append(float("%re%d" % (m, e)))
    out += [0.0, 5e-324, 1.7976931348623157e308, 0.1, 1 / 3, 2.5e-5, 1e16, 1e15, 123456789012345680.0, 1e-4, 1e-5]
    out = out + [-x for x in out]
    seen, res = set(), []
    for x in out:
        k = repr(x)
        if k not in seen:
            seen.add(k)
            res.append(x)
    return res


BIG = 10 ** 17  # size of the carrier register for index / bound positions


def literal_programs(tier):
    fl = float_alphabet(tier)
    nums = list(INTS) + fl
    g0 = A.gate("g", A.item("q", 0))
    for v in nums:
        yield A.prog((("let", "y", v), ("register", "q", 2)), (A.gate("g", A.item("q", 0), "y"),))
        yield A.prog((("register", "q", 2),), (A.gate("g", A.item("q", 0), v),))
        yield A.prog((("register", "q", 2),), (A.gate("g", v, A.item("q", 1), v),))
    for v in INTS:
        yield A.prog((("register", "q", 2),), (A.loop(v, A.seq(g0)),))
        yield A.prog((("register", "q", 2),), (A.sub(v, g0),))
        yield A.prog((("let", "c", v), ("register", "q", 2)), (A.loop("c", A.seq(g0)), A.sub("c", g0)))
        if v >= 1:
            yield A.prog((("register", "q", v),), (g0,))
            yield A.prog((("let", "s", v), ("register", "q", "s")), (g0,))
        if 0 <= v < BIG:
            yield A.prog((("register", "q", BIG),), (A.gate("g", A.item("q", v)),))
            yield A.prog((("register", "q", BIG), ("map", "a", "q", v)), (A.gate("g", "a"),))
            yield A.prog((("let", "i", v), ("register", "q", BIG), ("map", "a", "q", "i")), (A.gate("g", "a", A.item("q", "i")),))
    pos = [v for v in INTS if 0 <= v < BIG]
    for lo, hi, st in itertools.product(pos + [None], pos + [None], [1, 7, 2 ** 31, None, -1]):
        yield A.prog((("register", "q", BIG), ("map", "a", "q", lo, hi, st)), (A.gate("g", A.item("a", 0)),))


PAIR_VALUES = (0, 1, -1, -2, 2, 2 ** 61 - 1, 2 ** 61, -(2 ** 61 - 1), 1.0, -1.0, -2.0, 0.0, -0.0, 0.5, -0.5, 1e-07, 2.0 ** 61, 10 ** 22, 1e22)


def literal_pair_programs(tier):
    """two textually similar statements in ONE program that differ in a single number (values whose
    hashes or float/int forms coincide), in both orders, as gate argument, loop count and index"""
    R = ("register", "q", 2)
    for a, b in itertools.product(PAIR_VALUES, repeat=2):
        if repr(a) == repr(b):
            continue
        yield A.prog((R,), (A.gate("g", A.item("q", 0), a), A.gate("g", A.item("q", 0), b)))
        yield A.prog((R, ("let", "u", a), ("let", "w", b)), (A.gate("g", "u"), A.gate("g", "w")))
        if isinstance(a, int) and isinstance(b, int) and a >= 0 and b >= 0:
            yield A.prog((R,), (A.loop(a, A.seq(A.gate("g", A.item("q", 0)))), A.loop(b, A.seq(A.gate("g", A.item("q", 0))))))
            yield A.prog((R,), (A.sub(a, A.gate("g", A.item("q", 0))), A.sub(b, A.gate("g", A.item("q", 0)))))
            if a < 3 and b < 3:
                yield A.prog((("register", "q", 3),), (A.gate("g", A.item("q", a)), A.gate("g", A.item("q", b))))


def header_programs(tier):
    shapes1 = list(itertools.product((None, 1, "lo"), (None, 3, "hi"), (None, 2, "st")))
    shapes2 = list(itertools.product((None, 0, "z"), (None, 1, "one"), (None, 1, "one")))
    lets = (("let", "lo", 1), ("let", "hi", 3), ("let", "st", 2), ("let", "z", 0), ("let", "one", 1), ("let", "sz", 4))
    ups = ((), (("usepulses", "a.b"),), (("usepulses", "a.b"), ("usepulses", ".c")),
           (("usepulses", "a.b"), ("usepulses", ".c"), ("usepulses", "a.b")))  # one module imported twice
    for size in (4, "sz"):
        for up in ups:
            for s1 in shapes1:
                used = {x for x in s1 if isinstance(x, str)} | ({"sz"} if size == "sz" else set())
                h = tuple(l for l in lets if l[1] in used)
                yield A.prog(up + h + (("register", "q", size), ("map", "a", "q") + s1), (A.gate("g", A.item("a", 0)),))
                if up != ups[1]:
                    continue
                for s2 in shapes2:
                    used2 = used | {x for x in s2 if isinstance(x, str)}
                    h2 = tuple(l for l in lets if l[1] in used2)
                    yield A.prog(
                        h2 + (("register", "q", size), ("map", "a", "q") + s1, ("map", "b", "a") + s2, ("map", "w", "b"), ("map", "s", "a", 0)),
                        (A.gate("g", A.item("b", 0), "s", A.item("w", 0)),),
                    )


def small_enough(p):
    """registers and alias bounds (literal or let-valued) small enough for the model to
    materialise the cells"""
    lets = {h[1]: h[2] for h in p[1] if h[0] == "let"}
    for h in p[1]:
        if h[0] not in ("register", "map"):
            continue
        for x in h[2:]:
            if isinstance(x, str):
                x = lets.get(x, 0)
            if isinstance(x, (int, float)) and abs(x) > 64:
                return False
    return True


class C01(ProgramCheck):
    id = "C01"
    rule = (
        "programs from four exhaustive spaces (literal alphabet x literal positions; 27 slice shapes x chains x "
        "register/usepulses variants; tree-exhaustive pool; <= k-deviation neighbourhoods), each built from text and "
        "through build(); non-trivial = the program contains a float literal whose repr uses exponent notation, a "
        "let-bounded slice, a macro or a subcircuit; distinct by (canonical text, route)"
    )
    assumptions = (
        "finite numbers only (NaN / inf are outside the alphabet); identifiers from a fixed legal vocabulary",
        "numbers are compared by value (1 == 1.0)",
    )

    def specs(self, tier):
        if tier == "quick":
            return [dict(max_nodes=3, leaves=U.LEAVES), dict(max_nodes=4, min_nodes=4, leaves=U.LEAVES[7:9])]
        return [dict(max_nodes=3, leaves=U.LEAVES), dict(max_nodes=4, min_nodes=4, leaves=U.LEAVES[5:10]),
                dict(max_nodes=5, min_nodes=5, leaves=U.LEAVES[8:9], loops=("n",), subs=("n",))]

    def shards(self, tier):
        return super().shards(tier) + [("lit", r) for r in range(8)] + [("hdr", r) for r in range(4)]

    def cases(self, tier, shard):
        shard = tuple(shard)
        if shard[0] == "lit":
            gen = itertools.islice(itertools.chain(literal_programs(tier), literal_pair_programs(tier)), shard[1], None, 8)
        elif shard[0] == "hdr":
            gen = itertools.islice(header_programs(tier), shard[1], None, 4)
        else:
            gen = self.programs(tier, shard)
        for p in gen:
            yield ("text", p)
            yield ("build", p)
            if shard[0] == "lit" and any(isinstance(x, float) for x in _numbers(p)):
                # the builder API fed with numpy.float64 scalars (a float subclass: angles computed with numpy)
                yield ("build-np", p)

    def show(self, case):
        return {"route": case[0], "text": render.text(case[1])}

    def shrink(self, case):
        route, p = case
        for cand in A.shrink_program(p):
            yield (route, cand)

    def run_case(self, case, ctx):
        route, p = case
        text = render.text(p)
        # ---- build the circuit under test
        try:
            if route == "text":
                c = impl.parse(text)
            elif route == "build-np":
                c = impl.build(_numpy_floats(render.sexpr(p)))
            else:
                c = impl.build(render.sexpr(p))
        except impl.JaqalError:
            ctx.outcome("input-rejected")
            return
        except Exception:  # noqa: BLE001  (not a round-trip matter: C16 judges exception types)
            ctx.outcome("input-crashes")
            return
        ctx.trace()
        if (
            any(n[0] in ("macro", "sub") for st in p[2] for n in A.walk(st))
            or any(isinstance(x, float) and "e" in repr(x) for x in _numbers(p))
            or any(h[0] == "map" and any(isinstance(x, str) for x in h[3:]) for h in p[1])
        ):
            ctx.nontriv((route, text))
        try:
            t = impl.generate_jaqal_program(c)
        except Exception as ex:  # noqa: BLE001
            ctx.outcome("generate-raises")
            ctx.fail("generate-raises", "%s: %s" % (type(ex).__name__, ex))
            return
        try:
            c2 = impl.parse(t)
        except Exception as ex:  # noqa: BLE001
            ctx.outcome("reparse-fails")
            ctx.fail("reparse", "generated text is rejected: %s: %s\n%s" % (type(ex).__name__, ex, t))
            return
        ctx.transition(2)
        ctx.outcome("round-trip")
        ctx.state(t)
        if not (c2 == c):
            ctx.fail("equal", "parse(generate(c)) != c\n%s" % t)
        elif not (c == c2):
            ctx.fail("equal-sym", "c != parse(generate(c)) although parse(generate(c)) == c")
        t2 = impl.generate_jaqal_program(c2)
        if t2 != t:
            ctx.fail("regenerate", "second generation differs:\n%r\n%r" % (t, t2))
        s1, s2 = abstraction.sym(c), abstraction.sym(c2)
        if s1 != s2:
            ctx.fail("symbolic", "declarations/body changed by the trip: %r -> %r" % (s1, s2))
        if small_enough(p):
            model = Model(p)
            try:
                want = model.den()
            except Invalid:
                want = None
            if want is not None:
                d1, d2 = abstraction.den(c), abstraction.den(c2)
                if d2 != want or d1 != want:
                    ctx.fail("meaning", "model %r\nbefore %r\nafter %r" % (want, d1, d2))
                ms = model.sym()
                if s2 != ms:
                    ctx.fail("symbolic-model", "model %r\nre-parsed %r" % (ms, s2))


def _numpy_floats(x):
    import numpy

    if isinstance(x, (list, tuple)):
        return type(x)(_numpy_floats(v) for v in x)
    if isinstance(x, float):
        return numpy.float64(x)
    return x


def _numbers(p):
    for h in p[1]:
        for x in h[2:]:
            if isinstance(x, (int, float)):
                yield x
    for s in p[2]:
        for node in A.walk(s):
            if node[0] == "gate":
                for a in node[2]:
                    if isinstance(a, (int, float)):
                        yield a


CHECK = C01()

if __name__ == "__main__":
    import sys
    tier = sys.argv[1]
    print("lit", sum(1 for _ in literal_programs(tier)), "hdr", sum(1 for _ in header_programs(tier)))
