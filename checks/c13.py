"""C13 - used-qubit analysis is exact; overlapping parallel branches are rejected.

Space:
 exact   every statement and sub-statement (blocks, loops, gates, macro calls) of the shared
         tree-exhaustive program pool and of the deviation neighbourhood of a native-gate
         program with busy (prepare/measure) and idle gates; aliases, lets, macros with qubit /
         register / index parameters;
 par     all parallel blocks with 2-3 branches drawn from an alphabet of branch forms (1-, 2-
         and 3-qubit gates on every qubit tuple of a 3-qubit register, sequential sub-blocks on
         two tuples, macro calls, alias references, idle gates, unitary-less gates), in every
         order (so all permutations), placed at the top of a prepare/measure section, inside a
         loop, and inside a sequential block inside a parallel block.
Oracle: get_used_qubit_indices(obj) == the model's set (denotation-based: macros expanded,
        references resolved by the model's own arithmetic, busy = all qubits, idle = none);
        run_jaqal_circuit raises JaqalError  <=>  the model finds two intersecting branches in
        some parallel block; an accepted program has the reference simulator's state whatever
        the order of its branches.
"""
import itertools

from mc import impl, gates
from mc.progcheck import ProgramCheck
from mc.fuel import fuel, OutOfFuel
from mc.ref import render, abstraction, ast as A, universe as U, sim
from mc.ref.meaning import Model, Invalid, used_qubits, norm_top
import checks.c11 as c11

NATIVES = {k: v[0] for k, v in gates.SIGS.items()}
IDLE = set(gates.IDLE)
N = 3
HEADER = (("let", "k", 1), ("register", "q", N), ("map", "a", "q", 0, 3, 2), ("map", "c", "q", "k"),
          ("map", "w", "q"), ("map", "b", "a"))  # whole-register aliases: of the register, of a strided alias
MACROS = (
    A.macro("mx", ("p",), A.seq(A.gate("X", "p"))),
    A.macro("mr", ("r",), A.seq(A.gate("X", A.item("r", 0)), A.gate("H", A.item("r", 1)))),
)


def branch_alphabet(tier):
    q = lambda i: A.item("q", i)  # noqa: E731
    out = []
    for i in range(N):
        out.append(A.gate("X", q(i)))
    out.append(A.gate("H", A.item("a", 1)))  # q2 through a strided alias
    out.append(A.gate("G1", "c"))  # q1 through a single-qubit alias sized by a let
    out.append(A.gate("CX", q(0), q(1)))
    out.append(A.gate("CX", q(2), q(0)))
    out.append(A.gate("mx", q(1)))
    out.append(A.gate("mr", "a"))  # q0, q2
    out.append(A.gate("I_X", q(0)))
    out.append(A.gate("N1", q(2)))
    out.append(A.seq(A.gate("X", q(0)), A.gate("H", q(1))))
    # a loop that is never executed still names its qubits
    out.append(A.seq(A.loop(0, A.seq(A.gate("X", q(0))))))
    # busy gates inside a branch: they use every qubit, so any non-idle neighbour overlaps
    out.append(A.seq(A.gate("X", q(1)), A.gate("measure_all"), A.gate("prepare_all"), A.gate("X", q(1))))
    # the same physical qubits named through whole-register aliases (of the register; of the strided alias)
    out.append(A.gate("X", A.item("w", 2)))
    out.append(A.gate("H", A.item("b", 1)))  # b[1] = a[1] = q2
    if tier != "quick":
        out.append(A.gate("CX", q(1), q(2)))
        out.append(A.gate("A3", q(2), q(0), q(1)))
        out.append(A.gate("I_CX", q(1), q(2)))
        out.append(A.seq(A.gate("X", q(2)), A.gate("X", q(2))))
        out.append(A.seq(A.gate("H", q(1)), A.par(A.gate("X", q(0)), A.gate("X", q(2)))))
        out.append(A.gate("Rz", A.item("a", 0), 0.3))
    return out


PLACES = ("section", "loop", "seq-in-par")


def par_program(branches, place):
    blk = A.par(*branches)
    if place == "section":
        inner = (blk,)
    elif place == "loop":
        inner = (A.loop(2, A.seq(blk)),)
    else:
        inner = (A.par(A.seq(A.gate("H", A.item("q", 0)), blk)),)
    return A.prog(HEADER, MACROS + (A.gate("prepare_all"),) + inner + (A.gate("measure_all"),))


def overlapping(d, cells):
    """model: does some parallel block have two branches whose used-qubit sets intersect"""
    k = d[0]
    if k == "gate":
        return False
    if k in ("seq", "par"):
        if any(overlapping(i, cells) for i in d[1]):
            return True
        if k == "par":
            sets = [used_qubits(i, cells, idle=IDLE) for i in d[1]]
            for x, y in itertools.combinations(sets, 2):
                if x & y:
                    return True
        return False
    if k == "sub":
        return any(overlapping(i, cells) for i in d[2])
    if k == "loop":
        return overlapping(d[2], cells)
    return False


def linear_gates(d, out):
    """serialise an overlap-free denotation (branches of a parallel block in written order)"""
    k = d[0]
    if k == "gate":
        out.append(d)
    elif k in ("seq", "par"):
        for i in d[1]:
            linear_gates(i, out)
    elif k == "loop":
        for _ in range(d[1]):
            linear_gates(d[2], out)
    return out


def rename_register(p, old, new):
    """the same program over a fundamental register of another name (state that leaks from one circuit to the
    next through the register name shows when neighbouring cases use different names)"""
    def ren(x):
        if isinstance(x, tuple):
            return tuple(ren(v) for v in x)
        return new if x == old else x
    return ren(p)


def model_state(den):
    st = None
    seq = []
    for g in linear_gates(den, []):
        name = g[1]
        if name in ("prepare_all", "measure_all"):
            continue
        qs = tuple(v[2] for v in g[2] if isinstance(v, tuple) and v[0] == "q")
        fs = tuple(v for v in g[2] if not isinstance(v, tuple))
        seq.append((name, qs, fs))
    return sim.run_sequence(N, seq)


class C13(ProgramCheck):
    id = "C13"
    base = c11.BASE
    natives = None
    rule = (
        "exact: every body statement and nested sub-statement of the shared pool (anonymous gates) and of the native "
        "program neighbourhood; par: every ordered 2- (and 3-) tuple of branch forms x 3 placements; non-trivial = a "
        "statement reached through an alias or a macro, or a parallel block with an overlap; distinct by canonical text"
    )
    assumptions = (
        "a bare statement containing a busy gate needs the circuit to know 'all qubits': sub-statement exactness is judged "
        "for statements without busy gates, circuits are judged with them",
        "statements inside macro bodies are judged through their calls",
        "an unexpanded subcircuit block may be counted as its written gates or as all qubits (its implicit prepare/measure)",
    )

    def specs(self, tier):
        if tier == "quick":
            return [dict(max_nodes=3, leaves=U.LEAVES + (A.gate("m6", 0),))]
        return [dict(max_nodes=3, leaves=U.LEAVES + (A.gate("m6", 0),)), dict(max_nodes=4, min_nodes=4, leaves=U.LEAVES[3:8])]

    def nbhd_k(self, tier):
        return 1 if tier == "quick" else 2

    def roots(self, base=None):
        out, seen = [], set()
        for _l, q in U.single_deviations(base if base is not None else self.base):
            t = render.text(q)
            if t in seen or not U.valid(q, NATIVES):
                continue
            seen.add(t)
            out.append(q)
        return out

    def shards(self, tier):
        return super().shards(tier) + [("par", r) for r in range(32)]

    def programs(self, tier, shard):
        kind, i = shard[0], shard[1]
        if kind == "nbhd":
            if i == -1:
                yield self.base
                return
            yield from U.neighbourhood(self.roots()[i], self.nbhd_k(tier) - 1, NATIVES)
        else:
            yield from super().programs(tier, shard)

    def cases(self, tier, shard):
        shard = tuple(shard)
        if shard[0] == "par":
            alpha = branch_alphabet(tier)
            sizes = (2, 3) if tier != "quick" else (2, 3)
            gen = (
                ("par", tuple(bs), place)
                for r in sizes
                for bs in itertools.product(alpha if r == 2 or tier != "quick" else alpha[:9] + alpha[-2:], repeat=r)
                for place in PLACES
            )
            yield from itertools.islice(gen, shard[1], None, 32)
        else:
            for p in self.programs(tier, shard):
                yield ("exact", p, shard[0] == "nbhd")

    def show(self, case):
        if case[0] == "par":
            return render.text(par_program(case[1], case[2]))
        return render.text(case[1])

    def shrink(self, case):
        if case[0] == "par":
            _, bs, place = case
            if place != "section":
                yield ("par", bs, "section")
            if len(bs) > 2:
                for i in range(len(bs)):
                    yield ("par", bs[:i] + bs[i + 1:], place)
            return
        _, p, nat = case
        for cand in A.shrink_program(p):
            if U.valid(cand, NATIVES if nat else None):
                yield ("exact", cand, nat)

    # ------------------------------------------------------------------
    def run_case(self, case, ctx):
        if case[0] == "par":
            return self.run_par(case, ctx)
        _, p, nat = case
        if (len(render.text(p)) % 2) and not any(h[1] == "qq" for h in p[1] if len(h) > 1):
            p = rename_register(p, "q", "qq")
        text = render.text(p)
        model = Model(p, NATIVES if nat else None)
        try:
            model.den()
        except Invalid as e:
            ctx.outcome("model-invalid:" + e.reason)
            return
        env = model.env()
        cells = set()
        for name, h in model.regs.items():
            if h[0] == "register":
                cells = set(model.value_of_name(name, env)[1])
        c = impl.parse(text, inject_pulses=gates.native_gates()) if nat else impl.parse(text)
        ctx.trace()
        # whole circuit
        want = used_qubits(model.den(), cells, idle=IDLE)
        has_sub = any(n[0] == "sub" for n in _nodes(model.den()))
        self.compare(c, want, "circuit", ctx, also=cells if has_sub else None)
        # every body statement and sub-statement
        stmts = [s for s in p[2] if s[0] != "macro"]
        for pos_ir, (s_ast, s_ir) in enumerate(zip(stmts, c.body.statements)):
            pos = p[2].index(s_ast)
            self.walk(model, env, cells, s_ast, s_ir, pos, ctx, "body[%d]" % pos_ir)
        ctx.outcome("exact")

    def walk(self, model, env, cells, s_ast, s_ir, pos, ctx, path):
        d = model.den_stmt(s_ast, {}, env, pos)
        has_busy = any(g[1] in ("prepare_all", "measure_all") for g in _gates(d)) or any(n[0] == "sub" for n in _nodes(d))
        if not has_busy:
            want = used_qubits(d, cells, idle=IDLE)
            self.compare(s_ir, want, path, ctx)
            ctx.transition()
            if any(isinstance(a, str) or (isinstance(a, tuple) and a[1] != "q") for n in A.walk(s_ast) if n[0] == "gate" for a in n[2]):
                ctx.nontriv((path, render.stmt_lines(s_ast)[0], tuple(sorted(want))))
        k = s_ast[0]
        if k in ("seq", "par"):
            for i, (x, y) in enumerate(zip(s_ast[1], s_ir.statements)):
                self.walk(model, env, cells, x, y, pos, ctx, "%s[%d]" % (path, i))
        elif k == "sub":
            for i, (x, y) in enumerate(zip(s_ast[2], s_ir.statements)):
                self.walk(model, env, cells, x, y, pos, ctx, "%s[%d]" % (path, i))
        elif k == "loop":
            self.walk(model, env, cells, s_ast[2], s_ir.statements, pos, ctx, path + ".body")

    def compare(self, obj, want, path, ctx, also=None):
        try:
            got = impl.get_used_qubit_indices(obj)
        except Exception as ex:  # noqa: BLE001
            ctx.fail("used-qubits-raises", "%s: %s: %s" % (path, type(ex).__name__, ex))
            return
        gs = set()
        for reg, idxs in got.items():
            for i in idxs:
                gs.add((reg, i))
        ctx.state(tuple(sorted(gs)))
        if gs != want and not (also is not None and gs == set(also)):
            ctx.fail("used-qubits", "%s: implementation %r, model %r" % (path, sorted(gs), sorted(want)))

    def run_par(self, case, ctx):
        _, branches, place = case
        busy = any(n[0] == "gate" and n[1] in ("measure_all", "prepare_all") for b in branches for n in A.walk(b))
        if busy and (place != "section" or sum(1 for b in branches for n in A.walk(b) if n[0] == "gate" and n[1] == "measure_all") > 1):
            # elsewhere a measure_all inside the block is (also) rejected by the bracketing rules of C12
            ctx.outcome("skipped-busy-placement")
            return
        p = par_program(branches, place)
        text = render.text(p)
        model = Model(p, NATIVES)
        try:
            d = model.den(normalise=False)
        except Invalid as e:
            ctx.outcome("model-invalid:" + e.reason)
            return
        cells = {("q", i) for i in range(N)}
        clash = overlapping(d, cells)
        if clash:
            ctx.nontriv(text)
        ctx.trace()
        c = impl.parse(text, inject_pulses=gates.native_gates())
        try:
            with fuel(2000000):
                r = impl.run_jaqal_circuit(c)
            exc = None
        except impl.JaqalError as ex:
            exc = ex
        except OutOfFuel:
            ctx.fail("non-termination", "")
            return
        except Exception as ex:  # noqa: BLE001
            ctx.fail("crash", "%s: %s" % (type(ex).__name__, ex))
            return
        ctx.transition()
        if clash and exc is None:
            ctx.outcome("ACCEPTED-overlap")
            ctx.fail("overlap-accepted", "two parallel branches act on a common qubit, but the program ran")
            return
        if not clash and exc is not None:
            ctx.outcome("rejected-disjoint")
            ctx.fail("disjoint-rejected", "no two branches intersect, but: %s" % exc)
            return
        if clash:
            ctx.outcome("rejected-overlap")
            return
        ctx.outcome("ran")
        if busy:
            return  # two subcircuits: the state comparison below is for single sections
        want = model_state(norm_top((d,)))
        got = r.subcircuits[0].state_vector
        ctx.state(sim.key(want))
        if abs(got - want).max() > 1e-9:
            ctx.fail("state", "state differs from the reference for this branch order")


def _gates(d):
    k = d[0]
    if k == "gate":
        yield d
    elif k in ("seq", "par"):
        for i in d[1]:
            yield from _gates(i)
    elif k == "sub":
        for i in d[2]:
            yield from _gates(i)
    elif k == "loop":
        yield from _gates(d[2])


def _nodes(d):
    yield d
    k = d[0]
    if k in ("seq", "par"):
        for i in d[1]:
            yield from _nodes(i)
    elif k == "sub":
        for i in d[2]:
            yield from _nodes(i)
    elif k == "loop":
        yield from _nodes(d[2])


CHECK = C13()

if __name__ == "__main__":
    import sys
    t = sys.argv[1]
    print(sum(1 for sh in CHECK.shards(t) if sh[0] == "par" for _ in CHECK.cases(t, sh)))
