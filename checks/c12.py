"""C12 - only well-bracketed prepare/measure programs are executed.

Space   : tree-exhaustive.  Every forest of the body alphabet with at most N nodes in total:
          leaves   P = prepare_all, M = measure_all, G = `X q[0]`, S = `subcircuit { X q[0] }`
          wrappers `loop c { .. }` (c in 0, 1, 2), `{ .. }`, `< { .. } >` (single branch),
                   call of a parameterless macro whose body is the wrapped list
          under Jaqal's legal nesting (no sequential block directly inside a sequential block,
          no subcircuit inside a parallel block - also not through a macro).  Bodies may be empty.
Oracle  : mc.ref.execute.accepts - the acceptance rule transcribed from the statement.  The
          implementation is observed where acceptance is decided: construction of the emulator
          job (run_jaqal_circuit with a unitary backend whose job is built - discovery runs - but
          not walked), and - on the smaller trees - at the plain run_jaqal_circuit under fuel,
          which must agree.
          accepted <=> model accepts; len(subcircuits) = number of prepare/measure pairs;
          rejection must be a JaqalError (its wording is not judged).
"""
from mc import gates, impl
from mc.combi import TreeGrammar
from mc.framework import Check
from mc.fuel import OutOfFuel, fuel
from mc.ref import execute as E
from mc.ref import render

from checks import nestlib

# ---------------------------------------------------------------- enumeration
TOP = ("top", False)


def _rules(leaves="PMGS", loops=(0, 1, 2), wrappers=("parseq", "call", "seq"), looppar=False):
    R = {}
    for in_par in (False, True):
        lv = [l for l in leaves if not (in_par and l == "S")]
        sq = ("seq", in_par)
        st = [("L", lv, "leaf", None), ("loop", list(loops), "many", sq)]
        if "parseq" in wrappers:
            st.append(("parseq", [None], "many", ("seq", True)))
            if looppar:
                # a loop whose body is itself a parallel block: loop c < { .. } >
                st.append(("looppar", [c for c in loops if c != 1], "many", ("seq", True)))
        if "call" in wrappers:
            st.append(("call", [None], "many", sq))
        R[sq] = st
    R[TOP] = list(R[("seq", False)])
    if "seq" in wrappers:
        R[TOP].append(("seq", [None], "many", ("seq", False)))
    return R


# alphabets, richest first; the size classes they are used for are chosen in bounds()
GRAMMARS = {
    "rich": TreeGrammar(_rules(looppar=True)),  # 4 leaves, loop 0/1/2, { }, < { } >, macro call
    "mid": TreeGrammar(_rules("PMGS", (0, 2))),  # rich without count 1
    "lean": TreeGrammar(_rules("PMG", (0, 2), ("call",))),
    "core": TreeGrammar(_rules("PMG", (2,), ())),
}

_G = ("gate", "X", (("item", "q", 0),))
_LEAF = {
    "P": ("gate", "prepare_all", ()),
    "M": ("gate", "measure_all", ()),
    "G": _G,
    "S": ("sub", None, (_G,)),
}
HEADER = (("register", "q", 1),)


def legal(forest, top=True, in_par=False):
    for t in forest:
        k = t[0]
        if k == "L":
            if t[1] not in _LEAF or (in_par and t[1] == "S"):
                return False
        elif k == "loop":
            if t[1] not in (0, 1, 2, 3) or not legal(t[2], False, in_par):
                return False
        elif k == "seq":
            if not top or not legal(t[2], False, in_par):
                return False
        elif k == "parseq":
            if not legal(t[2], False, True):
                return False
        elif k == "looppar":
            if t[1] not in (0, 1, 2, 3) or not legal(t[2], False, True):
                return False
        elif k == "call":
            if not legal(t[2], False, in_par):
                return False
        else:
            return False
    return True


def to_prog(forest):
    """forest -> ('prog', header, macro definitions + body); macros are defined innermost
    first, so every call refers to a macro defined earlier in the text"""
    macros = []

    def conv(t):
        k = t[0]
        if k == "L":
            return _LEAF[t[1]]
        ch = tuple(conv(c) for c in t[2])
        if k == "loop":
            return ("loop", t[1], ("seq", ch))
        if k == "seq":
            return ("seq", ch)
        if k == "parseq":
            return ("par", (("seq", ch),))
        if k == "looppar":
            return ("loop", t[1], ("par", (("seq", ch),)))
        if k == "call":
            name = "m%d" % len(macros)
            macros.append(("macro", name, (), ("seq", ch)))
            return ("gate", name, ())
        raise ValueError(t)

    body = tuple(conv(t) for t in forest)
    return ("prog", HEADER, tuple(macros) + body)


def word(forest):
    """the discovery automaton's input: bracket word with loop classes; the transparent
    wrappers ({ }, < { } >, macro call) are dropped"""
    out = []
    for t in forest:
        k = t[0]
        if k == "L":
            out.append("PGM" if t[1] == "S" else t[1])
        elif k in ("loop", "looppar"):
            out.append("[%s" % ("o", "i", "r")[min(t[1], 2)])
            out.append(word(t[2]))
            out.append("]")
        else:
            out.append(word(t[2]))
    return "".join(out)


def _s_in_call(forest, inside=False):
    for t in forest:
        if t[0] == "L":
            if inside and t[1] == "S":
                return True
        elif _s_in_call(t[2], inside or t[0] == "call"):
            return True
    return False


def _reprepare_in_loop(j):
    """diagnostic only (names the clause, decides nothing): an accepted program in which a
    repeating loop is entered while a prepare_all is open and closes a subcircuit inside"""
    names = j["names"]
    for n, start, stop in j["loops"]:
        if n > 1 and any(start <= m < stop for _p, m in j["pairs"]):
            opened = False
            for name in names[:start]:
                if name == E.P_GATE:
                    opened = True
                elif name == E.M_GATE:
                    opened = False
            if opened:
                return True
    return False


def _simpler(t):
    if t[0] in ("loop", "looppar") and t[1] >= 2:
        yield (t[0], t[1] - 1, t[2])
    if t[0] == "looppar":
        yield ("loop", t[1], t[2])
    # (the other wrappers are removed by hoisting their children)


_BACKEND = []


def _discovery_backend():
    """The unitary emulator backend with a job that is built (discovery of the subcircuits and
    their distributions) but not walked: execute() just reports the number of subcircuits."""
    if not _BACKEND:
        from jaqalpaq.emulator.unitary import UnitarySerializedEmulator

        class DiscoveryOnly(UnitarySerializedEmulator):
            def __call__(self, circ):
                job = super().__call__(circ)
                n = len(job.subcircuits)
                job.execute = lambda: n
                return job

        _BACKEND.append(DiscoveryOnly)
    return _BACKEND[0]()


def _observe(fn, budget):
    """-> ('ok', n) | ('JaqalError', msg) | ('exception', type name, msg) | ('out-of-fuel',)"""
    try:
        with fuel(budget):
            return ("ok", fn())
    except OutOfFuel:
        return ("out-of-fuel",)
    except impl.JaqalError as e:
        return ("JaqalError", str(e)[:120])
    except Exception as e:  # noqa: BLE001
        return ("exception", type(e).__name__, str(e)[:120])


class C12(Check):
    id = "C12"
    nshards = 64
    rule = (
        "every forest over leaves prepare_all / measure_all / X q[0] / subcircuit{X q[0]} and wrappers "
        "loop 0|1|2 {..}, {..}, <{..}>, parameterless macro call, with <= N nodes in total under legal nesting "
        "(tree-exhaustive); non-trivial = the flat order contains both a prepare_all and a measure_all; "
        "distinct by bracket word with loop classes (transparent wrappers dropped)"
    )
    assumptions = (
        "'every measure_all is preceded by a prepare_all' is read as bracket matching: the measure_all closes a "
        "prepare_all that is still open (`prepare_all; measure_all; measure_all` is rejected)",
        "a loop 'repeats' when its count is > 1; counts 0 and 1 never reject, and the flat order ignores counts "
        "(a zero-count loop is still scanned)",
        "the subcircuit count of `subcircuit n { }` is outside the alphabet; references are valid and parallel "
        "blocks have a single branch, so the two preconditions of the statement hold for every case",
        "only the exception type of a rejection is judged, not its message",
        "the largest size classes use reduced alphabets (see bounds); beyond them nothing is claimed",
    )

    def __init__(self):
        self._shrinker = nestlib.LocalShrinker(self, max_steps=5000)

    # ------------------------------------------------------------ space
    _DOC = {
        "rich": "leaves P M G S; loop 0/1/2; {..}; <{..}>; loop c <{..}>; macro call",
        "mid": "leaves P M G S; loop 0/2; {..}; <{..}>; macro call",
        "lean": "leaves P M G; loop 0/2; macro call",
        "core": "leaves P M G; loop 2",
    }

    def _plan(self, tier):
        if tier == "quick":
            return [(n, "rich") for n in range(0, 5)] + [(5, "mid")]
        return [(n, "rich") for n in range(0, 6)] + [(6, "lean"), (7, "core")]

    def bounds(self, tier):
        plan = self._plan(tier)
        return {
            "max_nodes": plan[-1][0],
            "alphabet_by_nodes": {str(n): g for n, g in plan},
            "alphabets": {g: self._DOC[g] for g in sorted({g for _n, g in plan})},
            "run_jaqal_circuit_max_nodes": 4 if tier == "quick" else 5,
        }

    def all_cases(self, tier):
        """a case = (also run run_jaqal_circuit? 1/0, forest)"""
        run_max = self.bounds(tier)["run_jaqal_circuit_max_nodes"]
        for n, gname in self._plan(tier):
            flag = 1 if n <= run_max else 0
            for f in nestlib.lazy_forests(GRAMMARS[gname], n, TOP):
                yield (flag, f)

    def show(self, case):
        return render.oneline(to_prog(case[1]))

    def shrink(self, case):
        flag, forest = case
        seen = set()
        for cand in nestlib.forest_shrinks(forest, _simpler):
            if cand not in seen and legal(cand):
                seen.add(cand)
                yield (flag, cand)

    # ------------------------------------------------------------ oracle
    def run_case(self, case, ctx):
        # failures are reduced here, in the worker (see nestlib), and reported with case=minimum
        nestlib.run_and_reduce(self, self._shrinker, case, ctx)

    def evaluate(self, case, ctx):
        run_too, forest = case
        if not legal(forest):
            raise ValueError("illegal case %r" % (forest,))
        prog = to_prog(forest)
        text = render.text(prog)
        env, macros, body = E.program_parts(prog)
        j = E.judge(body, env, macros)
        ok, npairs = j["ok"], len(j["pairs"])
        w = word(forest)
        ctx.state(w)
        ctx.transition(len(j["names"]))
        if "P" in w and "M" in w:
            ctx.nontriv(w)
        if ok:
            ctx.outcome("model accepts, %d subcircuit(s)" % npairs)
        else:
            ctx.outcome("model rejects: %s" % j["reason"])
        nodes = nestlib.count_nodes(forest)
        budget = 8000 + 1000 * (nodes + len(j["names"]))

        try:
            with fuel(budget):
                circuit = impl.parse(text, inject_pulses=gates.native_gates())
        except OutOfFuel:
            ctx.fail("parse-non-termination", "parser out of fuel on a legal program")
            return
        except Exception as e:  # noqa: BLE001
            ctx.fail("legal-program-does-not-parse", "%s: %s" % (type(e).__name__, e))
            return

        def seam():
            # run_jaqal_circuit's own pass pipeline, with a backend whose job stops after discovery
            return impl.run_jaqal_circuit(circuit, backend=_discovery_backend())

        ctx.trace()
        obs = _observe(seam, budget)
        self._compare(ctx, "", forest, j, obs)

        if run_too:
            ctx.trace()
            robs = _observe(lambda: len(impl.run_jaqal_circuit(circuit).subcircuits), budget + 400 * _nvisits(body, env, macros, j))
            if robs[0] == "out-of-fuel":
                ctx.fail(
                    "run:non-termination",
                    "run_jaqal_circuit ran out of fuel (job construction gave %r, model %s)"
                    % (obs[:2], "accepts" if ok else "rejects"),
                )
            elif robs[:1] != obs[:1] or (robs[0] == "ok" and robs != obs) or (robs[0] == "exception" and robs[1] != obs[1]):
                ctx.fail("run-disagrees-with-discovery", "job construction: %r, run_jaqal_circuit: %r" % (obs, robs))

    def _compare(self, ctx, prefix, forest, j, obs):
        ok, npairs = j["ok"], len(j["pairs"])
        kind = obs[0]
        # diagnostic family names (they decide nothing): one clause per known root cause
        if ok and kind == "JaqalError" and _reprepare_in_loop(j):
            fam = "valid-program-rejected:reprepare-inside-repeating-loop"
        elif _s_in_call(forest):
            fam = "subcircuit-block-in-macro"
        else:
            fam = None
        if kind == "out-of-fuel":
            ctx.fail(prefix + "discovery-non-termination", "job construction ran out of fuel")
        elif ok and kind == "ok":
            if obs[1] != npairs:
                ctx.fail(
                    prefix + (fam or "subcircuit-count"),
                    "model: %d prepare/measure pair(s) at flat positions %r, implementation: %d subcircuit(s)"
                    % (npairs, j["pairs"], obs[1]),
                )
        elif ok and kind == "JaqalError":
            ctx.fail(
                prefix + (fam or "valid-program-rejected"),
                "model accepts with %d subcircuit(s); implementation: JaqalError(%s)" % (npairs, obs[1]),
            )
        elif ok:
            ctx.fail(prefix + (fam or "valid-program-crashes"), "model accepts; implementation raised %s: %s" % (obs[1], obs[2]))
        elif kind == "ok":
            ctx.fail(
                prefix + (fam or "ill-bracketed-program-accepted"),
                "model rejects (%s); implementation built a job with %d subcircuit(s)" % (j["reason"], obs[1]),
            )
        elif kind == "exception":
            ctx.fail(
                prefix + (fam or "rejection-is-not-a-JaqalError"),
                "model rejects (%s); implementation raised %s: %s" % (j["reason"], obs[1], obs[2]),
            )
        # model rejects and JaqalError: agreement

    # ------------------------------------------------------------ model self-consistency
    def selfcheck(self):
        g = GRAMMARS["rich"]
        n_acc = 0
        total = 0
        for n in range(0, 5):
            for idx, f in enumerate(nestlib.lazy_forests(g, n, TOP)):
                if n == 4 and idx % 7:
                    continue
                total += 1
                env, macros, body = E.program_parts(to_prog(f))
                a = E.accepts(body, env, macros)
                b = E.accepts2(body, env, macros)
                if a != b:
                    raise AssertionError("accepts %r != accepts2 %r on %s" % (a, b, render.oneline(to_prog(f))))
                if a[0]:
                    n_acc += 1
                    # an accepted program's flat order, bracket-scanned, has the same pairs
                    fl = [s[1] for s in E.flat(body, macros)]
                    if fl != E.judge(body, env, macros)["names"]:
                        raise AssertionError("flat() and judge() disagree on the flat order")
                assert legal(f)
                for _fl, c in self.shrink((0, f)):
                    assert legal(c) and nestlib.count_nodes(c) <= nestlib.count_nodes(f)
                    break
        if not (0 < n_acc < total):
            raise AssertionError("vacuous selfcheck")
        # hand-written anchors taken from the statement
        P, M, G = _LEAF["P"], _LEAF["M"], _LEAF["G"]
        H = ("gate", "H", (("item", "q", 0),))
        anchors = [
            ((P, G, P, H, M), (True, 1)),  # gates before a repeated prepare_all are discarded
            ((P, G, M, P), (True, 1)),  # trailing unmatched prepare_all yields none
            ((P, G, M, G), (False, 0)),  # gate outside
            ((M,), (False, 0)),
            ((P, M, M), (False, 0)),
            ((P, ("loop", 2, ("seq", (G, M)))), (False, 0)),  # repeating loop closes an outer subcircuit
            ((P, ("loop", 1, ("seq", (G, M)))), (True, 1)),
            ((P, ("loop", 0, ("seq", (G, M)))), (True, 1)),
            ((P, ("loop", 2, ("seq", (P, G, M)))), (True, 1)),  # closes a subcircuit opened inside
            ((("loop", 2, ("seq", (P, G))), M), (True, 1)),
            ((("loop", 2, ("seq", (("sub", None, (G,)), ("sub", None, ())))),), (True, 2)),
            ((("loop", 2, ("seq", (M, P))),), (False, 0)),
            ((P, ("loop", 2, ("seq", (M, P))), M), (False, 0)),
            ((), (True, 0)),
        ]
        for body, want in anchors:
            if E.accepts(body) != want or E.accepts2(body) != want:
                raise AssertionError("anchor %r: %r / %r, expected %r" % (body, E.accepts(body), E.accepts2(body), want))


def _nvisits(body, env, macros, j):
    if not j["ok"]:
        return 0
    try:
        return len(E.visits(body, env, macros))
    except ValueError:
        return 0


CHECK = C12()

if __name__ == "__main__":
    import sys
    import time

    for name, g in GRAMMARS.items():
        t = time.time()
        print(name, [sum(1 for _ in nestlib.lazy_forests(g, n, TOP)) for n in range(0, int(sys.argv[1]) if len(sys.argv) > 1 else 6)], round(time.time() - t, 1))
