"""C04 - macro expansion preserves the meaning of the program.

Space : tree-exhaustive pool of small programs over a header with lets, strided/whole/single
        aliases and three macros (one with a register parameter and an index by let, one
        calling the others inside a loop) + all <= k-deviation neighbourhoods of a base program
        (wrap in loop/par/seq/subcircuit, abstract a gate into a fresh macro, duplicate text in
        another scope, change counts/arguments/bounds, permute declarations ...).
Oracle: den(abstraction(expand_macros(parse(text)))) == den(model) under both readings of a
        macro call the IR offers; no macro call reachable from the body; header data, loop
        counts, block kinds and subcircuit annotations unchanged (they are part of den);
        wrong-arity calls raise JaqalError.
"""
from mc import impl
from mc.progcheck import ProgramCheck
from mc.ref import render, abstraction
from mc.ref.meaning import Model


def calls_macro(stmt, macros):
    if isinstance(stmt, impl.GateStatement):
        return isinstance(stmt.gate_def, impl.Macro) or stmt.name in macros
    if isinstance(stmt, impl.LoopStatement):
        return calls_macro(stmt.statements, macros)
    if isinstance(stmt, impl.BlockStatement):
        return any(calls_macro(s, macros) for s in stmt.statements)
    return False


def header_sym(sym):
    return tuple(x for x in sym if isinstance(x, tuple) and x[0] in ("usepulses", "lets", "regs"))


class C04(ProgramCheck):
    id = "C04"
    rule = (
        "programs = tree-exhaustive pool (<= N body nodes over 8 leaf statements incl. macro calls) + all "
        "<= k-deviation neighbourhoods of a feature-rich base program; non-trivial = the program calls a macro; "
        "distinct by canonical text"
    )
    assumptions = (
        "anonymous gates (no native set) so that gate names carry no arity/kind constraints; kinds are C14's",
        "sizes beyond the node / deviation bound",
    )

    def selfcheck(self):
        # wrong argument count must be rejected (constructed like the repository's own test)
        macro = impl.build(("macro", "foo", "a", ("sequential_block", ("gate", "bar", "a"))))
        for nargs in (0, 2, 3):
            gate = impl.build(("gate", "foo") + tuple(range(nargs)))
            c = impl.Circuit()
            c.macros[macro.name] = macro
            c.body.statements.append(gate)
            try:
                impl.expand_macros(c)
            except impl.JaqalError:
                continue
            raise AssertionError("expand_macros accepted a %d-argument call of a 1-parameter macro" % nargs)

    def run_case(self, p, ctx):
        if p[0] == "arity":
            return self.run_arity(p, ctx)
        text = render.text(p)
        model = Model(p)
        want = model.den()
        c = impl.parse(text)
        has_macro_call = any(s[0] == "macro" for s in p[2])
        if has_macro_call:
            ctx.nontriv(text)
        csym = abstraction.sym(c)
        for preserve in (False, True):
            ctx.trace()
            try:
                e = impl.expand_macros(c, preserve_definitions=preserve)
            except Exception as ex:  # noqa: BLE001
                ctx.outcome("exception")
                ctx.fail("expand-raises", "%s: %s" % (type(ex).__name__, ex))
                continue
            ctx.transition()
            if any(calls_macro(s, c.macros) for s in e.body.statements):
                ctx.fail("macro-call-left", "a macro call is still reachable from the body")
            for binding in ("gate_def", "name"):
                got = abstraction.den(e, binding=binding)
                if got != want:
                    ctx.fail("meaning", "model %r\nimplementation (%s) %r" % (want, binding, got))
                    break
            esym = abstraction.sym(e)
            ctx.state(esym)
            if header_sym(esym) != header_sym(csym):
                ctx.fail("header", "%r -> %r" % (header_sym(csym), header_sym(esym)))
            emac = dict(esym)["macros"] if False else [x for x in esym if x[0] == "macros"][0]
            cmac = [x for x in csym if x[0] == "macros"][0]
            if preserve and emac != cmac:
                ctx.fail("definitions-not-preserved", "%r -> %r" % (cmac, emac))
            if not preserve and emac[1]:
                ctx.fail("definitions-left", repr(emac))
            if sorted(e.native_gates) != sorted(c.native_gates):
                ctx.fail("native-gates", "%r -> %r" % (sorted(c.native_gates), sorted(e.native_gates)))
            # the expansion is legal Jaqal with the same meaning
            try:
                back = impl.parse(impl.generate_jaqal_program(e))
                if abstraction.den(back) != want:
                    ctx.fail("text-meaning", "re-parsed expansion means %r, model %r" % (abstraction.den(back), want))
            except impl.JaqalError as ex:
                ctx.fail("expansion-not-legal", "generated expansion does not parse: %s" % ex)
        ctx.outcome("macros" if has_macro_call else "no-macros")
        # the parser's own flag
        ctx.trace()
        try:
            pe = impl.parse(text, expand_macro=True)
            if abstraction.den(pe) != want:
                ctx.fail("parser-flag-meaning", "expand_macro=True gives %r, model %r" % (abstraction.den(pe), want))
        except Exception as ex:  # noqa: BLE001
            ctx.fail("parser-flag-raises", "%s: %s" % (type(ex).__name__, ex))


CHECK = C04()
