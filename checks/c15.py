"""C15 - result views are normalised and mutually consistent (little-endian).

Space   : product-exhaustive over three families, register size n = 1..4 (thorough 5):
          (a) "emu"  - for every outcome b and every subset h of the qubits the program
                       `loop 2 { prepare_all; X on bits(b); H on h; measure_all };
                        prepare_all; X on bits(~b); measure_all` run on the unitary emulator;
          (b) "out"  - parse_jaqal_output_list for every output list of length <= 2
                       (thorough 3 for n <= 3) over all outcomes, every element given as int
                       or as bit string (all int/str patterns), for every program shape with
                       that many readouts (separate sections / one looped section / mixed);
          (c) "pert" - basis and uniform probability vectors plus every perturbation from
                       {+-1e-15, +-5e-14, +-1e-7} (the last pair for the smaller n) on every set
                       of <= k entries (k = all entries for n <= 2), handed to the result
                       classes through a one-line backend.
          (d) "wide" - the emu and out families on n = 5..10 (thorough 12) qubits for boundary outcomes
                       (0, 1, 2^(n-1), 2^n-1, 0b0101.., 255, 256, 257) and H-masks (none, qubit 0, top
                       qubit, all): view sizes, key order and bit order beyond one byte of outcomes;
          (e) "job"  - ONE job of the default backend executed three times; after each execution every
                       result obtained so far is judged again (per-subcircuit counts against the
                       readouts held by that subcircuit).
Oracle  : written here from the statement (key(b)[i] = bit i of b, qubit 0 leftmost and least
          significant): probabilities >= 0 and sum to 1; every *_by_str view has exactly the
          2^n keys in integer order with the value of *_by_int[b]; Readout.as_str has n
          characters and equals key(as_int); string and integer outputs give the same result;
          relative_frequency_by_int[b] = number of recorded readouts with value b.
"""
import itertools
import math
import warnings

from mc import impl
from mc import gates
from mc.framework import Check
from mc.fuel import fuel, OutOfFuel

TOL = 1e-12
FUEL = 2_000_000

# perturbation alphabet (code 0 = untouched).  Codes 1-4 are the rounding-error sized values of
# DESIGN.md (below CUTOFF_WARN one at a time); codes 5-6 are large enough for a missing
# renormalisation to be visible at 1e-12, and small enough that no combination used here reaches
# ProbabilisticSubcircuit.CUTOFF_FAIL (2e-6): at most 4 entries are perturbed at once.
ALPHA = (0.0, 1e-15, -1e-15, 5e-14, -5e-14, 1e-7, -1e-7)
PERT_TOL = 1e-5  # closeness of the normalised vector to the vector handed in


# ---------------------------------------------------------------- oracle (from the statement)
def key(b, n):
    """string form of outcome b on n qubits: character i is bit i of b (qubit 0 leftmost)"""
    return "".join("1" if (b >> i) & 1 else "0" for i in range(n))


def palindromic(b, n):
    k = key(b, n)
    return k == k[::-1]


def emu_distribution(n, b, h):
    """X on bits(b) then H on the qubits of mask h, from |0..0>: uniform over the outcomes
    that agree with b outside h"""
    w = 1.0 / (1 << bin(h).count("1"))
    return [w if ((x ^ b) & ~h) == 0 else 0.0 for x in range(1 << n)]


def raw_vector(n, base, deltas):
    dim = 1 << n
    if base < 0:
        v = [1.0 / dim] * dim
    else:
        v = [0.0] * dim
        v[base] = 1.0
    for pos, code in deltas:
        v[pos] = v[pos] + ALPHA[code]
    return v


SHAPES = {0: ("none",), 1: ("seq",), 2: ("seq", "loop"), 3: ("seq", "loop", "mix")}


def shape_visits(shape, length):
    """which subcircuit (flat order) receives output j"""
    if shape == "none":
        return ()
    if shape == "seq":
        return tuple(range(length))
    if shape == "loop":
        return (0,) * length
    if shape == "mix":  # loop 2 { S0 } ; S1 ; ... one section per remaining output
        return (0, 0) + tuple(range(1, length - 1))
    raise ValueError(shape)


def shape_text(n, shape, length):
    sec = "prepare_all; measure_all"
    lines = ["register q[%d]" % n]
    if shape == "seq":
        lines += [sec] * length
    elif shape == "loop":
        lines.append("loop %d { %s }" % (length, sec))
    elif shape == "mix":
        lines.append("loop 2 { %s }" % sec)
        lines += [sec] * (length - 2)
    return "\n".join(lines) + "\n"


def emu_text(n, b, h, descending=False):
    """descending: the gates are written from the highest qubit down (the first gate of a section then acts on a
    higher-numbered qubit than later ones)"""
    order = list(range(n))[::-1] if descending else list(range(n))
    g = []
    for i in order:
        if (b >> i) & 1:
            g.append("X q[%d]" % i)
    for i in order:
        if (h >> i) & 1:
            g.append("H q[%d]" % i)
    nb = ~b & ((1 << n) - 1)
    g2 = ["X q[%d]" % i for i in order if (nb >> i) & 1]
    return "register q[%d]\nloop 2 { %s }\n%s\n" % (
        n,
        "; ".join(["prepare_all"] + g + ["measure_all"]),
        "; ".join(["prepare_all"] + g2 + ["measure_all"]),
    )


PERT_TEXT = "register q[%d]\nloop 2 { prepare_all; measure_all }\nprepare_all; measure_all\n"


# ---------------------------------------------------------------- the one-line backend
def make_backend(vectors):
    import numpy
    from jaqalpaq.emulator.backend import IndependentSubcircuitsBackend
    from jaqalpaq.emulator.unitary import EmulatorSubcircuit

    class FixedProbabilities(IndependentSubcircuitsBackend):
        def _make_subcircuit(self, job, index, trace):
            return EmulatorSubcircuit(
                trace, index, probabilities=numpy.array(vectors[index], dtype=float), state_vector=None
            )

    return FixedProbabilities()


# ---------------------------------------------------------------- observation of a result
PROB_VIEWS = (
    ("simulated_probability_by_int", "simulated_probability_by_str"),
    ("probability_by_int", "probability_by_str"),
)
FREQ_VIEWS = (("relative_frequency_by_int", "relative_frequency_by_str"),)


class Judge:
    """Compares one ExecutionResult with what the statement requires."""

    def __init__(self, ctx, n):
        self.ctx = ctx
        self.n = n
        self.dim = 1 << n
        self.keys = [key(b, n) for b in range(self.dim)]
        self.bad = []

    def fail(self, clause, detail):
        self.bad.append(clause)
        self.ctx.fail(clause, detail)

    # -- a pair of views ----------------------------------------------------------
    def view_pair(self, sub, name_int, name_str, where):
        """-> list of floats (the integer view) or None when the pair is unusable"""
        ctx = self.ctx
        try:
            vi = getattr(sub, name_int)
            vs = getattr(sub, name_str)
            vi = [float(x) for x in vi]
            ks = list(vs.keys())
            vv = [float(vs[k]) for k in ks]
        except Exception as e:  # noqa: BLE001
            self.fail("view-crash", "%s %s/%s: %s: %s" % (where, name_int, name_str, type(e).__name__, e))
            return None
        ctx.transition(2 + 2 * self.dim)
        if len(vi) != self.dim:
            self.fail("view-size", "%s %s has %d entries for %d qubits" % (where, name_int, len(vi), self.n))
            return None
        if ks != self.keys:
            if sorted(ks) != sorted(self.keys):
                self.fail("str-keys", "%s %s keys %r, expected exactly %r" % (where, name_str, ks, self.keys))
            else:
                self.fail("str-key-order", "%s %s keys %r are not in integer order %r" % (where, name_str, ks, self.keys))
            return vi
        for b in range(self.dim):
            if vv[b] != vi[b]:
                self.fail(
                    "str-int-mismatch",
                    "%s %s[%r] = %r but %s[%d] = %r" % (where, name_str, self.keys[b], vv[b], name_int, b, vi[b]),
                )
                break
        return vi

    def probabilities(self, sub, where, expect=None, tol=1e-9):
        for name_int, name_str in PROB_VIEWS:
            if not hasattr(sub, "simulated_probability_by_int"):
                # a readout-only result: `probability_*` is the documented alias of the
                # relative-frequency views and is judged as such (see assumptions)
                continue
            vi = self.view_pair(sub, name_int, name_str, where)
            if vi is None:
                continue
            self.ctx.transition(2)
            neg = [(b, v) for b, v in enumerate(vi) if not v >= 0.0]
            if neg:
                self.fail("negative-probability", "%s %s has %r" % (where, name_int, neg[:4]))
            tot = math.fsum(vi)
            if not abs(tot - 1.0) <= TOL:
                self.fail("not-normalised", "%s %s sums to %r" % (where, name_int, tot))
            if expect is not None:
                self.ctx.transition(self.dim)
                off = [(b, v, e) for b, (v, e) in enumerate(zip(vi, expect)) if not abs(v - e) <= tol]
                if off:
                    self.fail(
                        "distribution",
                        "%s %s differs from the distribution produced: (outcome, view, expected) %r" % (where, name_int, off[:4]),
                    )

    def frequencies(self, sub, where, counts):
        views = FREQ_VIEWS
        if not hasattr(sub, "simulated_probability_by_int"):
            views = FREQ_VIEWS + (("probability_by_int", "probability_by_str"),)
        for name_int, name_str in views:
            vi = self.view_pair(sub, name_int, name_str, where)
            if vi is None:
                continue
            self.ctx.transition(self.dim)
            if vi != [float(c) for c in counts]:
                self.fail(
                    "frequency-count",
                    "%s %s = %r but the recorded readouts count %r" % (where, name_int, vi, counts),
                )

    # -- readouts -----------------------------------------------------------------
    def readouts(self, res, visits, values=None, support=None):
        """visits[j] = subcircuit of readout j; values[j] = required value (or None);
        support[k] = set of outcomes with non-zero model probability in subcircuit k.
        -> list of observed integer values, or None"""
        ctx = self.ctx
        n = self.n
        try:
            ros = list(res.readouts)
            subs = list(res.subcircuits)
        except Exception as e:  # noqa: BLE001
            self.fail("view-crash", "readouts/subcircuits: %s: %s" % (type(e).__name__, e))
            return None
        nsub = (max(visits) + 1) if visits else 0
        ctx.transition(2)
        if len(subs) != nsub:
            self.fail("subcircuit-count", "%d subcircuits, expected %d" % (len(subs), nsub))
            return None
        if len(ros) != len(visits):
            self.fail("readout-count", "%d readouts, expected %d" % (len(ros), len(visits)))
            return None
        seen = []
        per_sub = [[] for _ in range(nsub)]
        for j, r in enumerate(ros):
            try:
                ai, as_, ri, rs = r.as_int, r.as_str, r.index, r.subcircuit
                ai = int(ai)
            except Exception as e:  # noqa: BLE001
                self.fail("view-crash", "readout %d: %s: %s" % (j, type(e).__name__, e))
                return None
            ctx.transition(5)
            seen.append(ai)
            if not 0 <= ai < self.dim:
                self.fail("readout-range", "readout %d as_int = %r on %d qubits" % (j, ai, n))
                continue
            if not isinstance(as_, str) or len(as_) != n:
                self.fail("readout-str-length", "readout %d as_str = %r, expected %d characters" % (j, as_, n))
            elif as_ != key(ai, n):
                self.fail("readout-str-int", "readout %d as_int = %d but as_str = %r (expected %r)" % (j, ai, as_, key(ai, n)))
            if ri != j:
                self.fail("readout-index", "readout %d has index %r" % (j, ri))
            if rs is not subs[visits[j]]:
                self.fail("readout-subcircuit", "readout %d is attributed to %r, expected subcircuit %d" % (j, rs, visits[j]))
            if values is not None and values[j] is not None and ai != values[j]:
                self.fail("readout-value", "readout %d as_int = %d, expected %d" % (j, ai, values[j]))
            if support is not None and ai not in support[visits[j]]:
                self.fail("readout-impossible", "readout %d = %d has probability zero in subcircuit %d" % (j, ai, visits[j]))
            per_sub[visits[j]].append(ai)
        for k, sub in enumerate(subs):
            where = "subcircuit %d" % k
            ctx.transition(3)
            try:
                idx, mq, sro = sub.index, list(sub.measured_qubits), list(sub.readouts)
            except Exception as e:  # noqa: BLE001
                self.fail("view-crash", "%s: %s: %s" % (where, type(e).__name__, e))
                continue
            if idx != k:
                self.fail("subcircuit-index", "%s has index %r" % (where, idx))
            if len(mq) != n:
                self.fail("measured-qubits", "%s measures %d qubits, expected %d" % (where, len(mq), n))
            mine = [r for j, r in enumerate(ros) if visits[j] == k]
            if len(sro) != len(mine) or any(a is not b for a, b in zip(sro, mine)):
                self.fail("subcircuit-readouts", "%s.readouts is not the subsequence of its readouts" % where)
            counts = [0] * self.dim
            for v in per_sub[k]:
                if 0 <= v < self.dim:
                    counts[v] += 1
            self.frequencies(sub, where, counts)
        return seen


def summary(res):
    """a plain description of a result, used to compare two runs and as the state key"""
    out = []
    for r in res.readouts:
        out.append(("r", int(r.as_int), str(r.as_str), int(r.index), int(r.subcircuit.index)))
    for s in res.subcircuits:
        out.append(("s", int(s.index), tuple(float(x) for x in s.relative_frequency_by_int),
                    tuple((k, float(v)) for k, v in s.relative_frequency_by_str.items())))
    return tuple(out)


# ---------------------------------------------------------------- the check
class C15(Check):
    id = "C15"
    nshards = 24
    rule = (
        "product-exhaustive: (emu) n x outcome b x H-subset h; (out) n x program shape x every output list "
        "(length <= 2, thorough 3 for n <= 3) x every int/str pattern; (pert) n x {basis b, uniform} x every "
        "perturbation of <= k entries by {+-1e-15, +-5e-14, +-1e-7}. Non-trivial = a non-palindromic outcome string has "
        "non-zero probability or is recorded (a bit reversal would be visible); distinct by canonical input"
    )
    assumptions = (
        "register sizes 1..4 (thorough 5); one fundamental register, all qubits measured (the only mode the library has)",
        "string outputs have exactly n characters; outcomes outside 0..2^n-1 and lists whose length differs from the "
        "number of readouts of the program are outside the statement",
        "on readout-only results (parse_jaqal_output_list) `probability_by_*` is the documented deprecated alias of "
        "`relative_frequency_by_*` and is judged as a relative-frequency view (counts), not as a probability",
        "relative frequencies are the raw counts, as the statement words it",
        "the probability views are additionally required to lie near the distribution that was produced "
        "(emulator: within 1e-9 of the H-superposition written down by the oracle; backend: within 1e-5 of the vector "
        "handed in), perturbations stay below ProbabilisticSubcircuit.CUTOFF_FAIL and warnings are not judged",
        "sampled readouts are judged only by seed-independent facts (range, support, attribution, counting)",
    )

    def bounds(self, tier):
        q = tier == "quick"
        return {
            "max_qubits": 4 if q else 5,
            "wide_qubits": [5, 10] if q else [6, 12],
            "job_executions": 3,
            "max_output_list": 2 if q else 3,
            "max_qubits_for_longest_list": 4 if q else 3,
            "perturbed_entries": {"1": 2, "2": 4, "3": 2 if q else 3, "4": 1 if q else 2, "5": 2},
            "perturbation_alphabet": list(ALPHA),
            "perturbation_codes": {"1": 6, "2": 6, "3": 6, "4": 4 if q else 6, "5": 4},
        }

    # -- enumeration ----------------------------------------------------------------
    @staticmethod
    def boundary_outcomes(n):
        dim = 1 << n
        alt = sum(1 << i for i in range(0, n, 2))
        return sorted({0, 1, dim >> 1, dim - 1, alt, (dim >> 1) + 1} | {v for v in (255, 256, 257) if v < dim})

    def wide_cases(self, tier):
        lo, hi = self.bounds(tier)["wide_qubits"]
        for n in range(lo, hi + 1):
            dim = 1 << n
            B = self.boundary_outcomes(n)
            for h in (0, 1, dim >> 1, dim - 1):
                for b in B:
                    yield ("emu", n, b, h)
            for shape in SHAPES[1]:
                for forms in itertools.product("is", repeat=1):
                    for v in B:
                        yield ("out", n, shape, (v,), forms)
            for shape in SHAPES[2]:
                for forms in itertools.product("is", repeat=2):
                    for vals in itertools.product(B[1:5], repeat=2):
                        yield ("out", n, shape, vals, forms)

    def job_cases(self, tier):
        for n in range(1, 4 if tier == "quick" else 5):
            dim = 1 << n
            for h in range(dim):
                for b in range(dim):
                    yield ("job", n, b, h)

    def all_cases(self, tier):
        yield from self.job_cases(tier)
        yield from self.wide_cases(tier)
        bd = self.bounds(tier)
        nmax = bd["max_qubits"]
        for n in range(1, nmax + 1):
            dim = 1 << n
            # (a)
            for h in sorted(range(dim), key=lambda m: (bin(m).count("1"), m)):
                for b in range(dim):
                    yield ("emu", n, b, h)
                    if n >= 2:
                        yield ("emud", n, b, h)  # the same gates written from the highest qubit down
            # (b)
            yield ("out", n, "none", (), ())
            for length in range(1, bd["max_output_list"] + 1):
                if length == bd["max_output_list"] and length > 2 and n > bd["max_qubits_for_longest_list"]:
                    continue
                for shape in SHAPES[length]:
                    for forms in itertools.product("is", repeat=length):
                        for vals in itertools.product(range(dim), repeat=length):
                            yield ("out", n, shape, vals, forms)
            # (c)
            k = bd["perturbed_entries"][str(n)]
            for base in list(range(dim)) + [-1]:
                for size in range(0, min(k, dim) + 1):
                    for pos in itertools.combinations(range(dim), size):
                        for codes in itertools.product(range(1, 1 + bd["perturbation_codes"][str(n)]), repeat=size):
                            yield ("pert", n, base, tuple(zip(pos, codes)))

    # -- shrinking --------------------------------------------------------------------
    def shrink(self, case):
        kind, n = case[0], case[1]
        if kind in ("emu", "emud"):
            _k, n, b, h = case
            for i in range(n):
                if (h >> i) & 1:
                    yield (kind, n, b, h & ~(1 << i))
            for i in range(n):
                if (b >> i) & 1:
                    yield (kind, n, b & ~(1 << i), h)
            if n > (1 if kind == "emu" else 2) and max(b, h) < (1 << (n - 1)):
                yield (kind, n - 1, b, h)
        elif kind == "out":
            _k, n, shape, vals, forms = case
            L = len(vals)
            for i in range(L):
                nv, nf = vals[:i] + vals[i + 1:], forms[:i] + forms[i + 1:]
                for sh in SHAPES[L - 1]:
                    yield ("out", n, sh, nv, nf)
            if shape not in ("seq", "none"):
                yield ("out", n, "seq", vals, forms)
            for i in range(L):
                if forms[i] == "s":
                    yield ("out", n, shape, vals, forms[:i] + ("i",) + forms[i + 1:])
            for i in range(L):
                for bit in range(n):
                    if (vals[i] >> bit) & 1:
                        yield ("out", n, shape, vals[:i] + (vals[i] & ~(1 << bit),) + vals[i + 1:], forms)
            if n > 1 and all(v < (1 << (n - 1)) for v in vals):
                yield ("out", n - 1, shape, vals, forms)
        elif kind == "job":
            _k, n, b, h = case
            for i in range(n):
                if (h >> i) & 1 and h & ~(1 << i):
                    yield ("job", n, b, h & ~(1 << i))
            for i in range(n):
                if (b >> i) & 1:
                    yield ("job", n, b & ~(1 << i), h)
            if n > 1 and max(b, h) < (1 << (n - 1)):
                yield ("job", n - 1, b, h)
        elif kind == "pert":
            _k, n, base, deltas = case
            for i in range(len(deltas)):
                yield ("pert", n, base, deltas[:i] + deltas[i + 1:])
            if base > 0:
                yield ("pert", n, 0, deltas)
            if base < 0:
                yield ("pert", n, 0, deltas)
            for i, (p, c) in enumerate(deltas):
                if c > 1:
                    yield ("pert", n, base, deltas[:i] + ((p, 1),) + deltas[i + 1:])
            half = 1 << (n - 1)
            if n > 1 and base < half and all(p < half for p, _c in deltas):
                yield ("pert", n - 1, base, deltas)

    # -- execution --------------------------------------------------------------------
    def run_case(self, case, ctx):
        kind = case[0]
        try:
            with warnings.catch_warnings(record=True) as caught:
                warnings.simplefilter("always")
                with fuel(FUEL):
                    if kind in ("emu", "emud"):
                        self._emu(case, ctx)
                    elif kind == "out":
                        self._out(case, ctx)
                    elif kind == "pert":
                        self._pert(case, ctx, caught)
                    elif kind == "job":
                        self._job(case, ctx)
                    else:
                        raise ValueError(case)
        except OutOfFuel:
            ctx.outcome("non-termination")
            ctx.fail("non-termination", "fuel exhausted")

    def _parse(self, text):
        return impl.parse(text, inject_pulses=gates.native_gates())

    def _emu(self, case, ctx):
        _k, n, b, h = case
        dim = 1 << n
        nb = ~b & (dim - 1)
        expect = [emu_distribution(n, b, h), emu_distribution(n, nb, 0)]
        support = [set(x for x in range(dim) if vec[x] > 0) for vec in expect]
        ctx.state(("emu", n, tuple(expect[0])))
        if any(not palindromic(x, n) for x in support[0] | support[1]):
            ctx.nontriv(case)
        ctx.trace()
        try:
            res = impl.run_jaqal_circuit(self._parse(emu_text(n, b, h, descending=(_k == "emud"))))
        except Exception as e:  # noqa: BLE001
            ctx.outcome("crash")
            ctx.fail("crash", "run_jaqal_circuit: %s: %s" % (type(e).__name__, e))
            return
        ctx.outcome("emu-basis" if h == 0 else "emu-superposition")
        j = Judge(ctx, n)
        visits = (0, 0, 1)
        values = (b if h == 0 else None, b if h == 0 else None, nb)
        j.readouts(res, visits, values=values, support=support)
        if len(res.subcircuits) == 2:
            for k, sub in enumerate(res.subcircuits):
                j.probabilities(sub, "subcircuit %d" % k, expect=expect[k])

    def _job(self, case, ctx):
        """one job, several executions: every result obtained so far stays self-consistent"""
        _k, n, b, h = case
        dim = 1 << n
        nb = ~b & (dim - 1)
        expect = [emu_distribution(n, b, h), emu_distribution(n, nb, 0)]
        support = [set(x for x in range(dim) if vec[x] > 0) for vec in expect]
        ctx.state(("job", n, b, h))
        if h:
            ctx.nontriv(case)
        try:
            circuit = self._parse(emu_text(n, b, h))
            backend = impl.UnitarySerializedEmulator()
            job = backend(impl.expand_macros(impl.fill_in_let(impl.expand_subcircuits(circuit))))
        except Exception as e:  # noqa: BLE001
            ctx.outcome("crash")
            ctx.fail("crash", "creating the job: %s: %s" % (type(e).__name__, e))
            return
        results = []
        for k in range(self.bounds("quick")["job_executions"]):
            ctx.trace()
            try:
                results.append(job.execute())
            except Exception as e:  # noqa: BLE001
                ctx.fail("crash", "execution %d of one job: %s: %s" % (k + 1, type(e).__name__, e))
                return
            j = Judge(ctx, n)
            for i, res in enumerate(results):
                where = "after execution %d, result of execution %d" % (k + 1, i + 1)
                try:
                    ros, subs = list(res.readouts), list(res.subcircuits)
                except Exception as e:  # noqa: BLE001
                    j.fail("view-crash", "%s: %s: %s" % (where, type(e).__name__, e))
                    continue
                if len(ros) != 3 or len(subs) != 2:
                    j.fail("readout-count", "%s: %d readouts, %d subcircuits (expected 3 and 2)" % (where, len(ros), len(subs)))
                    continue
                for jx, r in enumerate(ros):
                    ctx.transition()
                    v = (0, 0, 1)[jx]
                    if r.index != jx or r.subcircuit is not subs[v]:
                        j.fail("readout-subcircuit", "%s: readout %d has index %r / is attributed to %r" % (where, jx, r.index, r.subcircuit))
                    elif int(r.as_int) not in support[v]:
                        j.fail("readout-impossible", "%s: readout %d = %d has probability zero in subcircuit %d" % (where, jx, int(r.as_int), v))
                    elif not any(x is r for x in subs[v].readouts):
                        j.fail("subcircuit-readouts", "%s: readout %d is missing from the readouts of subcircuit %d" % (where, jx, v))
                for v, sub in enumerate(subs):
                    counts = [0] * dim
                    for r in sub.readouts:
                        if 0 <= int(r.as_int) < dim:
                            counts[int(r.as_int)] += 1
                    j.frequencies(sub, "%s, subcircuit %d" % (where, v), counts)
                    j.probabilities(sub, "%s, subcircuit %d" % (where, v), expect=expect[v])
            if j.bad:
                break
        else:
            # a NEW job of the same backend object for the same program: its result holds its own readouts only
            ctx.trace()
            try:
                circuit2 = self._parse(emu_text(n, b, h))
                res2 = backend(impl.expand_macros(impl.fill_in_let(impl.expand_subcircuits(circuit2)))).execute()
            except Exception as e:  # noqa: BLE001
                ctx.fail("crash", "second job of one backend: %s: %s" % (type(e).__name__, e))
                return
            j2 = Judge(ctx, n)
            j2.readouts(res2, (0, 0, 1), values=(b if h == 0 else None, b if h == 0 else None, nb), support=support)
            if len(res2.subcircuits) == 2:
                for k, sub in enumerate(res2.subcircuits):
                    j2.probabilities(sub, "second job of the backend, subcircuit %d" % k, expect=expect[k])
        ctx.outcome("job-basis" if h == 0 else "job-superposition")

    def _out(self, case, ctx):
        _k, n, shape, vals, forms = case
        L = len(vals)
        visits = shape_visits(shape, L)
        text = shape_text(n, shape, L)
        as_int = list(vals)
        formed = [key(v, n) if f == "s" else v for v, f in zip(vals, forms)]
        ctx.state(("out", n, shape, vals))
        if any(not palindromic(v, n) for v in vals):
            ctx.nontriv(("out", n, shape, vals))
        runs = []
        for outputs in (as_int, formed):
            ctx.trace()
            try:
                res = impl.parse_jaqal_output_list(self._parse(text), list(outputs))
            except Exception as e:  # noqa: BLE001
                ctx.outcome("crash")
                ctx.fail("crash", "parse_jaqal_output_list(%r): %s: %s" % (outputs, type(e).__name__, e))
                return
            j = Judge(ctx, n)
            j.readouts(res, visits, values=vals)
            if j.bad:
                runs.append(None)
                continue
            try:
                runs.append(summary(res))
            except Exception as e:  # noqa: BLE001
                runs.append(None)
                ctx.fail("view-crash", "reading the result of %r: %s: %s" % (outputs, type(e).__name__, e))
        if L == 0:
            ctx.outcome("out-empty")
        elif "s" not in forms:
            ctx.outcome("out-int")
        elif "i" not in forms:
            ctx.outcome("out-str")
        else:
            ctx.outcome("out-mixed")
        ctx.transition(1)
        if runs[0] is not None and runs[1] is not None and runs[0] != runs[1]:
            ctx.fail(
                "str-int-outputs-differ",
                "outputs %r and %r are interpreted differently: %r vs %r" % (as_int, formed, runs[0], runs[1]),
            )

    def _pert(self, case, ctx, caught):
        _k, n, base, deltas = case
        dim = 1 << n
        raw = raw_vector(n, base, deltas)
        vectors = [raw, raw[::-1]]
        ctx.state(case)
        support = [set(x for x in range(dim) if vec[x] > 0) for vec in vectors]
        if any(not palindromic(x, n) for x in support[0]):
            ctx.nontriv(case)
        ctx.trace()
        try:
            res = impl.run_jaqal_circuit(self._parse(PERT_TEXT % n), backend=make_backend(vectors))
        except Exception as e:  # noqa: BLE001
            ctx.outcome("crash")
            ctx.fail("crash", "backend returning %r: %s: %s" % (raw, type(e).__name__, e))
            return
        clipped = any(p < 0 or p > 1 for p in raw)
        off = math.fsum(max(0.0, min(1.0, p)) for p in raw) != 1.0
        warned = any(issubclass(w.category, RuntimeWarning) for w in caught)
        ctx.outcome(
            "pert-" + ("exact" if not deltas else "clipped" if clipped else "renormalised" if off else "sum-kept")
            + ("+warned" if warned else "")
        )
        j = Judge(ctx, n)
        j.readouts(res, (0, 0, 1), support=support)
        if len(res.subcircuits) == 2:
            for k, sub in enumerate(res.subcircuits):
                j.probabilities(sub, "subcircuit %d" % k, expect=vectors[k], tol=PERT_TOL)

    def selfcheck(self):
        # the oracle's own conventions
        assert key(1, 3) == "100" and key(4, 3) == "001" and key(6, 3) == "011"
        for n in range(1, 5):
            assert len({key(b, n) for b in range(1 << n)}) == 1 << n
            for b in range(1 << n):
                assert int(key(b, n)[::-1], 2) == b
                for h in range(1 << n):
                    d = emu_distribution(n, b, h)
                    assert abs(sum(d) - 1) < 1e-15 and d[b] > 0
        assert shape_visits("mix", 3) == (0, 0, 1) and shape_visits("loop", 2) == (0, 0)


CHECK = C15()

if __name__ == "__main__":
    from collections import Counter

    for tier in ("quick", "thorough"):
        c = Counter((k[0], k[1]) for k in CHECK.all_cases(tier))
        print(tier, sum(c.values()), sorted(c.items()))
