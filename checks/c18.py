"""C18 - gate definitions check calls; idle and stretched variants act as specified.

Space   : product-exhaustive, three families.
          "call"    - every signature over the kinds {QUBIT, REGISTER, INT, FLOAT, NONE} of arity
                      0..2 (thorough 3) x every argument list of length arity-1, arity, arity+1
                      over 14 values (qubit, register, 2, 2.0, 2.5, three lets, a parameter of
                      each kind, a string); each list is submitted positionally, by keyword
                      (declared and reversed order; a missing / surplus keyword when the length
                      is wrong), mixed, and with one keyword renamed.
          "idle"    - every non-empty subset, in every order, of the gate pool (fixed 1-qubit,
                      parametrised 1-qubit, asymmetric 2-qubit, prepare_all; thorough adds
                      measure_all and a gate without unitary), plus every ordered subset of
                      <= 3 (thorough 4) gates of the pool extended by four gates without qubit
                      parameters (W(t: FLOAT), parameterless Z0(), U(p: untyped),
                      IR(n: INT, r: REGISTER)); with and without idle gates already in the
                      input, passed to add_idle_gates; every derived idle gate is emulated on
                      every ordered qubit tuple (3 qubits), two angles, four places.
          "stretch" - the same ordered subsets x idle gates in the input or not x two suffixes
                      passed to stretched_gates; every classical argument tuple x stretch factor.
Oracle  : written here from the statement: accepted <=> arity matches and every value fits its
          kind (numbers by value; an untyped parameter accepts anything); positional and
          keyword calls give equal statements; idle gate = parent's signature, no qubits, no
          unitary, no effect on the emulated state, none for prepare/measure; stretched gate =
          parent's signature + one trailing FLOAT and ideal_unitary(*args, s) == the parent's
          ideal action for every s.
"""
import itertools

import numpy as np

from mc import impl
from mc import gates
from mc.framework import Check, Ctx
from mc.fuel import fuel, OutOfFuel

FUEL = 2_000_000
PT = impl.ParamType

# ---------------------------------------------------------------- alphabets
KINDS = ("Q", "R", "I", "F", "N")
KIND = {"Q": PT.QUBIT, "R": PT.REGISTER, "I": PT.INT, "F": PT.FLOAT, "N": PT.NONE}
KIND_NAME = {v: k for k, v in KIND.items()}

# value code -> what the oracle knows about it
#   ("qubit",) ("register",) ("number", v) ("named", kind, value or None) ("other",)
VALUES = (
    "qubit", "reg", "i2", "f2", "f2.5", "let_i", "let_fi", "let_f",
    "par_q", "par_r", "par_i", "par_f", "par_n", "str",
)
SORT = {
    "qubit": ("qubit",),
    "reg": ("register",),
    "i2": ("number", 2),
    "f2": ("number", 2.0),
    "f2.5": ("number", 2.5),
    "let_i": ("named", "I", 2),
    "let_fi": ("named", "F", 2.0),
    "let_f": ("named", "F", 2.5),
    "par_q": ("named", "Q", None),
    "par_r": ("named", "R", None),
    "par_i": ("named", "I", None),
    "par_f": ("named", "F", None),
    "par_n": ("named", "N", None),
    "str": ("other",),
}


def make_value(code):
    """a fresh implementation object for a value code"""
    if code == "qubit":
        return impl.Register("r", 2)[0]
    if code == "reg":
        return impl.Register("r", 2)
    s = SORT[code]
    if s[0] == "number":
        return s[1]
    if code.startswith("let_"):
        return impl.Constant("k_" + code[4:], s[2])
    if code.startswith("par_"):
        return impl.Parameter("m_" + code[4:], KIND[s[1]])
    if code == "str":
        return "q"
    raise ValueError(code)


# ---------------------------------------------------------------- oracle for calls
def fits(kind, code):
    """True / False.  An argument fits INT only if it is an int, an integral float, a let
    holding such a value, or a name whose declared kind is INT or untyped; a FLOAT-kinded name
    that carries no value does not fit INT."""
    s = SORT[code]
    if kind == "N":
        return True
    if s[0] == "named" and s[1] == "N":
        return True  # an untyped name may stand for anything
    if kind == "Q":
        return s[0] == "qubit" or (s[0] == "named" and s[1] == "Q")
    if kind == "R":
        return s[0] == "register" or (s[0] == "named" and s[1] == "R")
    if kind == "F":
        return s[0] == "number" or (s[0] == "named" and s[1] in ("I", "F"))
    if kind == "I":
        if s[0] == "number":
            return float(s[1]) == int(s[1])
        if s[0] == "named" and s[1] == "I":
            return True
        if s[0] == "named" and s[1] == "F":
            if s[2] is None:
                return False
            return float(s[2]) == int(s[2])
        return False
    raise ValueError(kind)


def verdict(sig, args):
    """'accept' / 'reject' / 'either'"""
    if len(sig) != len(args):
        return "reject"
    f = [fits(k, a) for k, a in zip(sig, args)]
    if any(x is False for x in f):
        return "reject"
    if any(x is None for x in f):
        return "either"
    return "accept"


# ---------------------------------------------------------------- gate pool (names of mc.gates fixtures)
POOL_QUICK = ("G1", "Rz", "CX", "prepare_all")
POOL_THOROUGH = ("G1", "Rz", "CX", "prepare_all", "measure_all", "N1")
# active gates without qubit parameters (defined here; mc.gates has none)
POOL_EXTRA = ("W", "Z0", "U", "IR")
POOL_ALL = POOL_THOROUGH + POOL_EXTRA


def _u_W(t):
    return np.array([[np.exp(1j * t)]], dtype=complex)  # a global phase: acts on no qubit


def _u_Z0():
    return np.array([[1j]], dtype=complex)


def _u_IR(n):
    return np.diag([1.0, np.exp(0.25j * n)]).astype(complex)


# name -> (kinds, parameter names, ideal action of the classical arguments or None)
LOCAL = {
    "W": (("F",), ("t",), _u_W),
    "Z0": ((), (), _u_Z0),
    "U": (("N",), ("p",), None),
    "IR": (("I", "R"), ("n", "r"), _u_IR),
}


def fresh_defs():
    """a fresh table of every pool gate (fixtures of mc.gates plus the local ones)"""
    t = gates.native_gates(idle=False)
    for name, (kinds, names, ufun) in LOCAL.items():
        t[name] = impl.GateDefinition(
            name, [impl.Parameter(nm, KIND[k]) for nm, k in zip(names, kinds)], ideal_unitary=ufun
        )
    return t
BOUNDARY = ("prepare_all", "measure_all")
SUFFIXES = ("_s", "2x")
ANGLES = (0.3, -1.1)
STRETCH_ANGLES = (0.3, -1.1, 0.0, 2)
STRETCHES = (0.5, 1, 3)
EXT_SUBSET_SIZE = {"quick": 3, "thorough": 4}
NQ = 3


def model_sig(name):
    """(kinds over Q/R/I/F/N, ideal action as a function of the classical arguments or None)"""
    if name in LOCAL:
        return LOCAL[name][0], LOCAL[name][2]
    kinds, ufun, _busy = gates.SIGS[name]
    return tuple(MODEL_KIND[c] for c in kinds), ufun


def good_args(mk, r):
    """one fitting argument per kind (r = a register of NQ qubits)"""
    return [r[i] if k == "Q" else r if k == "R" else 2 if k == "I" else 0.3 for i, k in enumerate(mk)]


def misfit(k, r):
    """a value that does not fit kind k"""
    return {"Q": 0.3, "R": 0.3, "F": r[0], "I": 2.5}[k]


def call_probes(mk, r, tail=()):
    """(description, arguments, expected) for a gate of signature mk (+ tail of extra fitting values)"""
    good = good_args(mk, r)
    out = [("fitting arguments", good + list(tail), "ok")]
    if mk:
        out.append(("one argument short", good[:-1] + list(tail), "JaqalError"))
    out.append(("one argument more", good + list(tail) + [0.3], "JaqalError"))
    for i, k in enumerate(mk):
        if k != "N":
            out.append(("a misfit for parameter %d" % i, good[:i] + [misfit(k, r)] + good[i + 1:] + list(tail), "JaqalError"))
    return out


CLASSICAL_ALPHABET = {"F": STRETCH_ANGLES, "I": (2, 0)}


def kinds_of(defn):
    return tuple(KIND_NAME.get(p.kind, "?") for p in defn.parameters)


def names_of(defn):
    return tuple(p.name for p in defn.parameters)


MODEL_KIND = {"q": "Q", "f": "F", "i": "I"}


def ordered_subsets(pool):
    for k in range(1, len(pool) + 1):
        for sub in itertools.permutations(pool, k):
            yield sub


def observe(fn):
    try:
        return ("ok", fn())
    except impl.JaqalError:
        return ("JaqalError",)
    except Exception as e:  # noqa: BLE001
        return ("crash", type(e).__name__, str(e)[:200])


class _Quiet(Ctx):
    """scratch accumulator for the in-worker minimiser"""


# ---------------------------------------------------------------- the check
class C18(Check):
    id = "C18"
    nshards = 48
    rule = (
        "product-exhaustive: (call) signature over 5 kinds, arity 0..2 (thorough 3) x argument list of length "
        "arity-1..arity+1 over 14 values x 5 call forms; (idle) ordered non-empty subsets of the gate pool x idle "
        "gates in the input x qubit tuple x angle x place in the program; (stretch) ordered subsets x idle in input x "
        "suffix x classical arguments x stretch factor. Non-trivial = a call with the right arity whose verdict is "
        "decided by a kind rule, an idle gate whose parent would have changed the state at that place, a stretched "
        "gate whose parent has a unitary; distinct by canonical input"
    )
    assumptions = (
        "numbers are compared by value: an int fits FLOAT, an integral float fits INT; bools, NaN and inf are outside the alphabet",
        "an untyped (NONE) name offered as an argument fits every kind (it may stand for anything; macro bodies depend on it)",
        "a FLOAT-kinded name that carries no value (a typed parameter passed on) does not fit INT; a FLOAT-kinded let "
        "with an integral value does",
        "mixing positional and keyword arguments may be rejected (JaqalError) or accepted with the positional call's statement",
        "an argument supplied under a keyword that names no parameter must be rejected",
        "an idle variant of a stretched gate is judged only if stretched_gates returns one",
        "the parent's ideal action is the fixture function of mc.gates, compared entrywise within 1e-12",
        "parameter names inside one signature are distinct",
    )

    def bounds(self, tier):
        q = tier == "quick"
        return {
            "max_arity": 2 if q else 3,
            "values": list(VALUES),
            "pool": list(POOL_QUICK if q else POOL_THOROUGH),
            "extended_pool": list((POOL_QUICK if q else POOL_THOROUGH) + POOL_EXTRA),
            "extended_pool_max_subset": EXT_SUBSET_SIZE[tier],
            "suffixes": list(SUFFIXES),
            "stretch_factors": list(STRETCHES),
            "emulated_qubits": NQ,
        }

    # -- enumeration (by blocks, so that a shard does not have to walk the whole space) --------
    def blocks(self, tier):
        b = self.bounds(tier)
        for arity in range(0, b["max_arity"] + 1):
            for sig in itertools.product(KINDS, repeat=arity):
                for nargs in (arity - 1, arity, arity + 1):
                    if nargs < 0:
                        continue
                    if nargs == 0:
                        yield ("call", sig, 0, None)
                    else:
                        for first in VALUES:
                            yield ("call", sig, nargs, first)
        pool = tuple(b["pool"])
        for sub in ordered_subsets(pool):
            yield ("sets", sub)
        ext = tuple(b["extended_pool"])
        for k in range(1, b["extended_pool_max_subset"] + 1):
            for sub in itertools.permutations(ext, k):
                if any(g in LOCAL for g in sub):
                    yield ("sets", sub)

    def block_cases(self, blk):
        if blk[0] == "call":
            _k, sig, nargs, first = blk
            if nargs == 0:
                yield ("call", sig, ())
            else:
                for rest in itertools.product(VALUES, repeat=nargs - 1):
                    yield ("call", sig, (first,) + rest)
        else:
            sub = blk[1]
            for flag in (0, 1):
                yield ("idle", sub, flag)
            for flag in (0, 1, 2, 3):  # bit 0: idle gates in the input; bit 1: every input definition was called once before
                for suffix in SUFFIXES:
                    yield ("stretch", sub, flag, suffix)

    def all_cases(self, tier):
        for blk in self.blocks(tier):
            yield from self.block_cases(blk)

    def cases(self, tier, shard):
        for i, blk in enumerate(self.blocks(tier)):
            if i % self.nshards == shard:
                yield from self.block_cases(blk)

    # -- shrinking ------------------------------------------------------------------------
    def shrink(self, case):
        kind = case[0]
        if kind == "call":
            _k, sig, args = case
            for i in range(min(len(sig), len(args))):
                yield ("call", sig[:i] + sig[i + 1:], args[:i] + args[i + 1:])
            if len(args) > len(sig):
                yield ("call", sig, args[:-1])
            if len(sig) > len(args):
                yield ("call", sig[:-1], args)
            for i, a in enumerate(args):
                for v in VALUES[: VALUES.index(a)]:
                    yield ("call", sig, args[:i] + (v,) + args[i + 1:])
            for i, k in enumerate(sig):
                for k2 in KINDS[: KINDS.index(k)]:
                    yield ("call", sig[:i] + (k2,) + sig[i + 1:], args)
            return
        sub = case[1]
        rest = case[2:]
        if len(sub) > 1:
            for g in sub:
                yield (kind, (g,)) + rest
            for i in range(len(sub)):
                yield (kind, sub[:i] + sub[i + 1:]) + rest
        if rest[0]:
            yield (kind, sub, 0) + rest[1:]
        if kind == "stretch" and rest[1] != SUFFIXES[0]:
            yield (kind, sub, rest[0], SUFFIXES[0])
        for i, g in enumerate(sub):
            for g2 in POOL_ALL[: POOL_ALL.index(g)]:
                if g2 not in sub:
                    yield (kind, sub[:i] + (g2,) + sub[i + 1:]) + rest

    # -- execution ------------------------------------------------------------------------
    _memo = None

    def run_case(self, case, ctx):
        try:
            fails = self._eval(case, ctx)
        except OutOfFuel:
            ctx.outcome("non-termination")
            fails = [("non-termination", "fuel exhausted")]
        for clause, detail in fails:
            small = case
            if not isinstance(ctx, _Quiet) and ctx.fail_counts[clause] < ctx.MAX_FAIL_PER_CLAUSE:
                small = self._minimal(clause, case)
            ctx.fail(clause, detail, case=small)

    def _clauses(self, case):
        q = _Quiet()
        q._case = case
        try:
            self.run_case(case, q)
        except BaseException:  # noqa: BLE001
            return set()
        return set(c for c, _k, _d in q.failures)

    def _minimal(self, clause, case):
        """greedy reduction inside the worker (same candidates as the runner's shrinker), memoised:
        thousands of failing supersets of one small failing input are reported once"""
        if self._memo is None:
            self._memo = {}
        key = (clause, case)
        if key in self._memo:
            return self._memo[key]
        cur, path = case, [case]
        improved = True
        while improved:
            improved = False
            hit = self._memo.get((clause, cur))
            if hit is not None:
                cur = hit
                break
            for cand in self.shrink(cur):
                if clause in self._clauses(cand):
                    cur = cand
                    path.append(cur)
                    improved = True
                    break
        for p in path:
            self._memo[(clause, p)] = cur
        return cur

    def _eval(self, case, ctx):
        kind = case[0]
        if kind == "call":
            return self._call(case, ctx)
        if kind == "idle":
            with fuel(FUEL * 20):
                return self._idle(case, ctx)
        if kind == "stretch":
            return self._stretch(case, ctx)
        raise ValueError(case)

    # ---- family "call" --------------------------------------------------------------------
    def _call(self, case, ctx):
        _k, sig, args = case
        fails = []
        arity, nargs = len(sig), len(args)
        names = tuple("p%d" % i for i in range(arity))
        gd = impl.GateDefinition("g", [impl.Parameter(nm, KIND[k]) for nm, k in zip(names, sig)])
        vals = [make_value(a) for a in args]
        want = verdict(sig, args)
        if nargs == arity and arity:
            ctx.nontriv(case)

        def judge(form, obs, expect):
            """expect: 'accept' 'reject' 'either'"""
            ctx.transition(1)
            if obs[0] == "crash":
                fails.append(("call-crash", "%s call of g%r with %r: %s: %s (the model says %s)" % (form, sig, args, obs[1], obs[2], expect)))
                return
            if obs[0] == "ok" and expect == "reject":
                fails.append(("accepts-misfit", "%s call of g%r with %r was accepted" % (form, sig, args)))
            elif obs[0] == "JaqalError" and expect == "accept":
                fails.append(("rejects-fit", "%s call of g%r with %r raised JaqalError" % (form, sig, args)))

        def shape(form, st, keys, values):
            """the statement names the gate and carries the arguments in declaration order"""
            ctx.transition(3)
            try:
                ok = (
                    st.name == "g"
                    and st.gate_def is gd
                    and tuple(st.parameters.keys()) == tuple(keys)
                    and all(a is b or a == b for a, b in zip(st.parameters.values(), values))
                    and len(st.parameters) == len(values)
                )
            except Exception as e:  # noqa: BLE001
                fails.append(("statement-shape", "%s call: reading the statement: %s: %s" % (form, type(e).__name__, e)))
                return
            if not ok:
                fails.append(("statement-shape", "%s call of g%r with %r gave %r" % (form, sig, args, st)))

        # positional
        ctx.trace()
        pos = observe(lambda: gd(*vals))
        judge("positional", pos, want)
        if pos[0] == "ok" and nargs == arity:
            shape("positional", pos[1], names, vals)

        # keyword forms
        forms = []
        if nargs == arity and arity >= 1:
            kw = list(zip(names, vals))
            forms.append(("keyword", dict(kw), (), want, True))
            if arity >= 2:
                forms.append(("keyword-reversed", dict(reversed(kw)), (), want, True))
                forms.append(("mixed", dict(kw[1:]), (vals[0],), "either" if want != "reject" else "reject", True))
            forms.append(("keyword-renamed", dict(kw[:-1] + [("zz", vals[-1])]), (), "reject", False))
        elif nargs == arity - 1 and nargs >= 1:
            forms.append(("keyword-missing", dict(zip(names, vals)), (), "reject", False))
        elif nargs == arity + 1:
            forms.append(("keyword-surplus", dict(list(zip(names, vals)) + [("zz", vals[-1])]), (), "reject", False))
        for form, kwargs, pargs, expect, comparable in forms:
            ctx.trace()
            obs = observe(lambda: gd(*pargs, **kwargs))
            judge(form, obs, expect)
            if obs[0] == "ok" and comparable:
                shape(form, obs[1], names, vals)
            if comparable and form != "mixed" and obs[0] != "crash" and pos[0] != "crash":
                ctx.transition(1)
                if obs[0] != pos[0]:
                    fails.append(("keyword-positional-differ", "g%r with %r: positional %s, %s %s" % (sig, args, pos[0], form, obs[0])))
            if comparable and obs[0] == "ok" and pos[0] == "ok":
                ctx.transition(2)
                try:
                    same = (obs[1] == pos[1]) and (pos[1] == obs[1])
                except Exception as e:  # noqa: BLE001
                    same = False
                if not same:
                    fails.append(("keyword-positional-differ", "g%r with %r: positional %r != %s %r" % (sig, args, pos[1], form, obs[1])))
            if form == "mixed" and obs[0] == "ok" and pos[0] != "ok":
                fails.append(("keyword-positional-differ", "g%r with %r: positional %s, mixed accepted" % (sig, args, pos[0])))

        # outcome class / state
        if pos[0] == "crash":
            ctx.outcome("crash")
        elif nargs != arity:
            ctx.outcome("arity-" + ("rejected" if pos[0] == "JaqalError" else "accepted"))
        else:
            ctx.outcome({"accept": "fits", "reject": "misfit", "either": "undecided"}[want] + "-" + ("accepted" if pos[0] == "ok" else "rejected"))
        if pos[0] == "ok":
            ctx.state(("stmt", sig, args))
        return fails

    # ---- shared: tables -------------------------------------------------------------------
    def _tables(self, sub, flag):
        base = fresh_defs()
        table_in = {}
        for name in sub:
            table_in[name] = base[name]
        if flag & 1:
            table_in = impl.add_idle_gates(table_in)
        if flag & 2:
            # the definitions have been in use (called with fitting arguments) before variants are derived from them
            r = impl.Register("r0", NQ)
            for name, d in table_in.items():
                try:
                    d(*good_args(kinds_of(d), r))
                    d(**dict(zip(names_of(d), good_args(kinds_of(d), r))))
                except Exception:  # noqa: BLE001 - judged by the call family
                    pass
        return base, table_in

    # ---- family "idle" ---------------------------------------------------------------------
    def _idle(self, case, ctx):
        _k, sub, flag = case
        fails = []
        base, table_in = self._tables(sub, flag)
        ctx.trace()
        try:
            out = impl.add_idle_gates(table_in)
        except Exception as e:  # noqa: BLE001
            ctx.outcome("idle-crash")
            return [("idle-crash", "add_idle_gates(%r): %s: %s" % (list(table_in), type(e).__name__, e))]
        ctx.state(("idle", sub, flag))
        derived = 0
        emu = None
        baselines = {}
        for g in sub:
            mk, ufun = model_sig(g)
            fresh = fresh_defs()[g]
            ctx.transition(1)
            if g not in out or out[g].name != g or kinds_of(out[g]) != mk:
                fails.append(("active-gate-lost", "add_idle_gates(%r) does not return %s unchanged" % (list(table_in), g)))
            iname = "I_" + g
            if g in BOUNDARY:
                ctx.transition(1)
                if iname in out:
                    fails.append(("idle-for-boundary", "add_idle_gates(%r) derived %s" % (list(table_in), iname)))
                continue
            if iname not in out:
                fails.append(("idle-missing", "add_idle_gates(%r) has no %s" % (list(table_in), iname)))
                continue
            idle = out[iname]
            derived += 1
            ctx.transition(5)
            try:
                sig_ok = idle.name == iname and kinds_of(idle) == mk and names_of(idle) == names_of(fresh)
                uq = list(idle.used_qubits)
                iu = idle.ideal_unitary
            except Exception as e:  # noqa: BLE001
                fails.append(("idle-crash", "reading %s: %s: %s" % (iname, type(e).__name__, e)))
                continue
            if not sig_ok:
                fails.append(("idle-signature", "%s has parameters %r, its parent %r" % (iname, idle.parameters, fresh.parameters)))
                continue
            if uq:
                fails.append(("idle-uses-qubits", "%s.used_qubits = %r" % (iname, uq)))
            if iu is not None:
                fails.append(("idle-has-unitary", "%s.ideal_unitary is not None" % iname))
            # same signature => same acceptance of calls
            r = impl.Register("r", NQ)
            for what, argv, expect in call_probes(mk, r):
                ctx.trace()
                ctx.transition(1)
                obs = observe(lambda: idle(*argv))
                if obs[0] != expect:
                    fails.append(("idle-call", "%s called with %s: %s, expected %s" % (iname, what, obs[:2], expect)))
                elif obs[0] == "ok":
                    try:
                        suq = list(obs[1].used_qubits)
                    except Exception as e:  # noqa: BLE001
                        suq = ["%s: %s" % (type(e).__name__, e)]
                    if suq:
                        fails.append(("idle-uses-qubits", "a statement calling %s uses %r" % (iname, suq)))
            # no effect under emulation
            if emu is None:
                emu = dict(out)
                for extra in ("prepare_all", "measure_all", "A3", "A2", "G1"):
                    emu.setdefault(extra, base[extra])
            nq = mk.count("Q")
            angles = ANGLES if ("F" in mk or "N" in mk) else (None,)
            emulable_parent = ufun is not None and set(mk) <= {"Q", "F"}
            for qt in itertools.permutations(range(NQ), nq):
                for th in angles:
                    it = iter(qt)
                    argtext = " ".join(
                        "q[%d]" % next(it) if k == "Q" else "q" if k == "R" else "2" if k == "I" else repr(th) for k in mk
                    )
                    for place in ("begin", "middle", "end", "par"):
                        partner = "G1 q[%d]" % (qt[0] if qt else 0) if place == "par" else None
                        bkey = partner
                        if bkey not in baselines:
                            baselines[bkey] = self._state(emu, place, None, partner, ctx)
                        b0 = baselines[bkey]
                        got = self._state(emu, place, "%s %s" % (iname, argtext), partner, ctx)
                        ctx.transition(1)
                        label = "%s %s (%s)" % (iname, argtext, place)
                        if b0[0] != "ok":
                            fails.append(("idle-emulation", "baseline program does not run: %r" % (b0,)))
                            continue
                        if got[0] != "ok":
                            fails.append(("idle-emulation", "%s: %s, while the program without it runs" % (label, got[1:])))
                            continue
                        if got[1].shape != b0[1].shape or not np.allclose(got[1], b0[1], rtol=0, atol=1e-12):
                            fails.append(("idle-changes-state", "%s changes the state: max deviation %.3g" % (
                                label, float(np.abs(got[1] - b0[1]).max()) if got[1].shape == b0[1].shape else -1)))
                        if place == "middle" and emulable_parent:
                            act = self._state(emu, place, "%s %s" % (g, argtext), None, ctx)
                            if act[0] == "ok" and not np.allclose(act[1], b0[1], rtol=0, atol=1e-6):
                                ctx.nontriv(("idle", g, qt, th))
        ctx.outcome("idle-derived-%d" % derived if not fails else "idle-failed")
        return fails

    def _state(self, table, place, stmt, partner, ctx):
        """state vector of the one-subcircuit probe program with `stmt` at `place`"""
        scr1 = "A3 q[0] q[1] q[2]"
        scr2 = "A2 q[2] q[0] 0.3"
        body = ["prepare_all"]
        if place == "par":
            inner = [s for s in (stmt, partner) if s]
            body += [scr1, "< " + " | ".join(inner) + " >", scr2]
        else:
            seq = {"begin": [stmt, scr1, scr2], "middle": [scr1, stmt, scr2], "end": [scr1, scr2, stmt]}[place]
            body += [s for s in seq if s]
        body.append("measure_all")
        text = "register q[%d]\n%s\n" % (NQ, "\n".join(body))
        ctx.trace()
        try:
            res = impl.run_jaqal_circuit(impl.parse(text, inject_pulses=table))
            vec = np.array(res.subcircuits[0].state_vector, dtype=complex)
        except Exception as e:  # noqa: BLE001
            return ("raised", type(e).__name__, str(e)[:200])
        return ("ok", vec)

    # ---- family "stretch" -------------------------------------------------------------------
    def _stretch(self, case, ctx):
        _k, sub, flag, suffix = case
        fails = []
        base, table_in = self._tables(sub, flag)
        ctx.trace()
        try:
            st = impl.stretched_gates(table_in, suffix=suffix)
        except Exception as e:  # noqa: BLE001
            ctx.outcome("stretch-crash")
            return [("stretch-crash", "stretched_gates(%r, suffix=%r): %s: %s" % (list(table_in), suffix, type(e).__name__, e))]
        ctx.state(("stretch", sub, flag, suffix))
        bad_unitary = False
        for g in sub:
            mk, ufun = model_sig(g)
            fresh = fresh_defs()[g]
            sname = g + suffix
            ctx.transition(2)
            if kinds_of(table_in[g]) != mk:
                fails.append(("stretch-mutates-input", "after stretched_gates the input's %s has parameters %r" % (g, table_in[g].parameters)))
            if sname not in st:
                fails.append(("stretched-missing", "stretched_gates(%r, suffix=%r) has no %s (keys %r)" % (list(table_in), suffix, sname, list(st))))
                continue
            d = st[sname]
            ctx.transition(3)
            try:
                sig_ok = d.name == sname and kinds_of(d) == mk + ("F",) and names_of(d)[:-1] == names_of(fresh)
                iu = d.ideal_unitary
            except Exception as e:  # noqa: BLE001
                fails.append(("stretch-crash", "reading %s: %s: %s" % (sname, type(e).__name__, e)))
                continue
            if not sig_ok:
                fails.append(("stretched-signature", "%s is %r; its parent has %r" % (sname, d, fresh.parameters)))
                continue
            # calls: parent's arguments plus one trailing float
            r = impl.Register("r", NQ)
            good = good_args(mk, r)
            for what, argv, expect in call_probes(mk, r, tail=(2.0,)) + [
                ("parent's arguments only", good, "JaqalError"),
                ("a qubit as stretch factor", good + [r[NQ - 1]], "JaqalError"),
            ]:
                ctx.trace()
                ctx.transition(1)
                obs = observe(lambda: d(*argv))
                if obs[0] != expect:
                    fails.append(("stretched-call", "%s called with %s: %s, expected %s" % (sname, what, obs[:2], expect)))
            # ideal action
            if ufun is None:
                ctx.transition(1)
                if iu is not None:
                    fails.append(("stretched-unitary-unexpected", "%s has an ideal unitary, its parent %s has none" % (sname, g)))
            elif iu is None:
                fails.append(("stretched-unitary-missing", "%s has no ideal unitary, its parent %s has one" % (sname, g)))
            else:
                ctx.nontriv(("stretch", sub, flag, suffix, g))
                alph = [CLASSICAL_ALPHABET[k] for k in mk if k in CLASSICAL_ALPHABET]
                for cargs in itertools.product(*alph):
                    want = np.array(ufun(*cargs), dtype=complex)
                    for s in STRETCHES:
                        ctx.trace()
                        ctx.transition(1)
                        try:
                            got = np.array(iu(*cargs, s), dtype=complex)
                        except Exception as e:  # noqa: BLE001
                            bad_unitary = True
                            fails.append(("stretched-unitary-raises", "%s.ideal_unitary(*%r, %r): %s: %s" % (sname, cargs, s, type(e).__name__, e)))
                            continue
                        ctx.state(("U", g, cargs, s, got.shape))
                        if got.shape != want.shape or not np.allclose(got, want, rtol=0, atol=1e-12):
                            bad_unitary = True
                            fails.append(("stretched-unitary-differs", "%s.ideal_unitary(*%r, %r) is not %s's ideal action (shape %r vs %r%s)" % (
                                sname, cargs, s, g, got.shape, want.shape,
                                ", max deviation %.3g" % float(np.abs(got - want).max()) if got.shape == want.shape else "")))
            # an idle variant, if one is returned, is an idle gate with the stretched signature
            iname = "I_" + g + suffix
            if iname in st and g not in BOUNDARY:
                ctx.transition(3)
                di = st[iname]
                try:
                    ok = kinds_of(di) == mk + ("F",) and not list(di.used_qubits) and di.ideal_unitary is None
                except Exception as e:  # noqa: BLE001
                    ok = False
                if not ok:
                    fails.append(("stretched-idle", "%s is not an idle gate with %s's signature: %r" % (iname, sname, di)))
        # one failure per clause and case is enough for the report
        seen, uniq = set(), []
        for c, dtl in fails:
            if c not in seen:
                seen.add(c)
                uniq.append((c, dtl))
        has_u = any(model_sig(g)[1] is not None for g in sub)
        ctx.outcome("stretch-failed" if uniq else ("stretch-ok-unitary" if has_u else "stretch-ok-no-unitary"))
        return uniq

    # -- model self-consistency ---------------------------------------------------------------
    def selfcheck(self):
        table = {(k, v): fits(k, v) for k in KINDS for v in VALUES}
        assert sum(1 for x in table.values() if x is True) == 35, table
        assert not [kv for kv, x in table.items() if x is None] and table[("I", "par_f")] is False
        assert fits("I", "f2") is True and fits("I", "f2.5") is False and fits("I", "let_fi") is True
        assert fits("F", "i2") is True and fits("Q", "reg") is False and fits("R", "qubit") is False
        assert verdict(("Q", "F"), ("qubit",)) == "reject" and verdict((), ()) == "accept"
        assert verdict(("I", "Q"), ("par_f", "i2")) == "reject" and verdict(("I",), ("par_f",)) == "reject"
        for g in POOL_ALL:
            mk, ufun = model_sig(g)
            d = fresh_defs()[g]
            assert kinds_of(d) == mk, g
            assert (d.ideal_unitary is None) == (ufun is None), g
        assert len(list(ordered_subsets(POOL_QUICK))) == 64


CHECK = C18()

if __name__ == "__main__":
    from collections import Counter

    for tier in ("quick", "thorough"):
        c = Counter(k[0] for k in CHECK.all_cases(tier))
        print(tier, sum(c.values()), sorted(c.items()), "blocks", sum(1 for _ in CHECK.blocks(tier)))
