"""C20 - circuit equality is an equivalence consistent with meaning and text.

Space : a pool of N parsed programs (tree-exhaustive small programs + header variants) and ALL
        N^2 ordered pairs; for every pool program EVERY single-token mutant from the mutation
        alphabet (gate name, number, qubit index, loop / subcircuit count, block kind,
        subcircuit added / removed, alias bound, alias source, let value, register size, macro
        parameter list, usepulses module, statement deleted / duplicated / swapped).
Oracle: c == c; (c1 == c2) == (c2 == c1); c == parse(generate(c)); c1 == c2 implies identical
        declarations and identical meaning according to the reference model (sym and den of the
        two ASTs, numbers by value) - hence every mutant whose meaning differs must compare
        unequal both ways.  Mutants with equal meaning carry no obligation.
"""
import itertools

from mc import impl
from mc.framework import Check
from mc.ref import render, ast as A, universe as U
from mc.ref.meaning import Model, Invalid
from checks.c01 import header_programs, literal_pair_programs


def pool(tier):
    n_small = 560 if tier == "quick" else 1400
    n_hdr = 240 if tier == "quick" else 600
    out = []
    spec = [dict(max_nodes=2, leaves=U.LEAVES), dict(max_nodes=3, min_nodes=3, leaves=U.LEAVES[::3])]
    progs = list(itertools.islice(U.pool(spec), 0, None))
    step = max(1, len(progs) // n_small)
    out += progs[::step][:n_small]
    hp = [p for p in header_programs(tier) if U.valid(p)]
    step = max(1, len(hp) // n_hdr)
    out += hp[::step][:n_hdr]
    # two statements in one program that differ in one number (hash / int-float coincidences)
    pairs = [p for p in literal_pair_programs(tier) if U.valid(p)]
    out += pairs[:: max(1, len(pairs) // (60 if tier == "quick" else 300))]
    # the same statement text in a macro whose parameter shadows a header name and in the main body, in both textual
    # orders (C07's probe programs): such circuits compare equal only if they also mean the same
    from checks.c07 import all_programs as scope_programs

    sp = list(scope_programs("quick"))
    out += sp[:: max(1, len(sp) // (240 if tier == "quick" else 600))]
    # second leaf menu of the universe
    xp = list(U.pool(U.extra_specs("quick")))
    out += xp[:: max(1, len(xp) // (100 if tier == "quick" else 300))]
    seen, res = set(), []
    for q in out:
        t = render.text(q)
        if t not in seen:
            seen.add(t)
            res.append(q)
    return res


_POOL = {}


def get_pool(tier):
    if tier not in _POOL:
        ps = pool(tier)
        _POOL[tier] = ps
    return _POOL[tier]


# ---------------------------------------------------------------- mutation alphabet
def _mut_arg(a):
    if isinstance(a, tuple):
        _, name, idx = a
        if isinstance(idx, int):
            yield ("item", name, idx + 1)
            yield ("item", name, 0 if idx else 1)
        else:
            yield ("item", name, 0)
            yield ("item", name, "n" if idx != "n" else "k")
        yield ("item", "b" if name != "b" else "q", idx)
    elif isinstance(a, str):
        yield {"x": "n", "n": "k", "k": "n", "c": "a", "a": "b", "b": "q", "p": "r", "r": "p", "t": "r"}.get(a, "x")
    elif isinstance(a, (int, float)):
        yield a + 1
        yield -a if a else 0.5


def _mut_stmt(s):
    k = s[0]
    if k == "gate":
        yield ("gate", {"g": "h", "h": "g"}.get(s[1], "g"), s[2])
        for i, a in enumerate(s[2]):
            for v in _mut_arg(a):
                yield ("gate", s[1], s[2][:i] + (v,) + s[2][i + 1:])
            yield ("gate", s[1], s[2][:i] + s[2][i + 1:])
        yield ("gate", s[1], s[2] + (1,))
    elif k in ("seq", "par"):
        yield ("par" if k == "seq" else "seq", s[1])
        if k == "seq":
            yield ("sub", None, s[1])
        for i in range(len(s[1])):
            yield (k, s[1][:i] + s[1][i + 1:])
            yield (k, s[1][:i] + (s[1][i], s[1][i]) + s[1][i + 1:])
            if i + 1 < len(s[1]):
                yield (k, s[1][:i] + (s[1][i + 1], s[1][i]) + s[1][i + 2:])
            for v in _mut_stmt(s[1][i]):
                yield (k, s[1][:i] + (v,) + s[1][i + 1:])
    elif k == "sub":
        yield ("seq", s[2])
        for c in (None, 2, 3, "n", "k"):
            if c != s[1]:
                yield ("sub", c, s[2])
        for i in range(len(s[2])):
            yield ("sub", s[1], s[2][:i] + s[2][i + 1:])
            for v in _mut_stmt(s[2][i]):
                yield ("sub", s[1], s[2][:i] + (v,) + s[2][i + 1:])
    elif k == "loop":
        for c in (0, 1, 2, 3, "n", "k"):
            if c != s[1]:
                yield ("loop", c, s[2])
        yield s[2]
        for v in _mut_stmt(s[2]):
            if v[0] in ("seq", "par"):
                yield ("loop", s[1], v)
    elif k == "macro":
        yield ("macro", s[1], s[2] + ("zz",), s[3])
        if s[2]:
            yield ("macro", s[1], s[2][:-1], s[3])
            yield ("macro", s[1], s[2][::-1], s[3])
        for v in _mut_stmt(s[3]):
            if v[0] in ("seq", "par"):
                yield ("macro", s[1], s[2], v)


def _mut_header(h):
    k = h[0]
    if k == "usepulses":
        yield ("usepulses", h[1] + "x")
    elif k == "let":
        yield ("let", h[1], h[2] + 1)
        yield ("let", h[1], -h[2] if h[2] else 0.5)
    elif k == "register":
        if isinstance(h[2], int):
            yield ("register", h[1], h[2] + 1)
            if h[2] > 1:
                yield ("register", h[1], h[2] - 1)
    elif k == "map":
        for pos in range(3, len(h)):
            v = h[pos]
            if isinstance(v, int):
                for w in (v + 1, v - 1):
                    yield h[:pos] + (w,) + h[pos + 1:]
            elif v is None:
                yield h[:pos] + (1,) + h[pos + 1:]
                yield h[:pos] + (2,) + h[pos + 1:]
            else:
                yield h[:pos] + (1,) + h[pos + 1:]
        yield h[:2] + ("b" if h[2] == "a" else "a" if h[2] == "q" else "q",) + h[3:]
        if len(h) == 3:
            yield h + (0,)
            yield h + (None, None, None)
            yield h + (None, None, 2)


def mutants(p):
    _, header, body = p
    for i, h in enumerate(header):
        for v in _mut_header(h):
            yield ("prog", header[:i] + (v,) + header[i + 1:], body)
        yield ("prog", header[:i] + header[i + 1:], body)
    for i, s in enumerate(body):
        yield ("prog", header, body[:i] + body[i + 1:])
        yield ("prog", header, body[:i] + (s, s) + body[i + 1:]) if s[0] != "macro" else p
        if i + 1 < len(body):
            yield ("prog", header, body[:i] + (body[i + 1], s) + body[i + 2:])
        for v in _mut_stmt(s):
            yield ("prog", header, body[:i] + (v,) + body[i + 1:])


def analyse(p):
    m = Model(p)
    return m.sym(), m.den()


class C20(Check):
    id = "C20"
    nshards = 64
    rule = (
        "pool of N parsed programs: all N^2 ordered pairs (a case = one row of the matrix) + for each program all "
        "single-token mutants the parser accepts; non-trivial = a pair of distinct programs with different meaning, "
        "or a mutant whose meaning differs; distinct by the pair of canonical texts"
    )
    assumptions = (
        "meaning and declarations are judged by the reference model on the two ASTs (numbers by value, slice defaults explicit)",
        "mutants with equal meaning and pairs that compare unequal carry no obligation",
    )

    def bounds(self, tier):
        return {"pool_size": len(get_pool(tier)), "pairs": len(get_pool(tier)) ** 2}

    def all_cases(self, tier):
        n = len(get_pool(tier))
        for i in range(n):
            yield ("row", tier, i)
        for i in range(n):
            yield ("mut", get_pool(tier)[i])

    def show(self, case):
        if case[0] == "row":
            return {"row": case[2], "tier": case[1], "text": render.text(get_pool(case[1])[case[2]])}
        if case[0] == "mut":
            return {"mutants-of": render.text(case[1])}
        return {"a": render.text(case[1]), "b": render.text(case[2])}

    def shrink(self, case):
        if case[0] != "pair":
            return
        _, a, b = case
        # shrink both sides in parallel (same edit position) first, then one side
        for ca, cb in zip(A.shrink_program(a), A.shrink_program(b)):
            if U.valid(ca) and U.valid(cb):
                yield ("pair", ca, cb)

    # ------------------------------------------------------------------
    def compare(self, pa, pb, ca, cb, ctx, infoa=None, infob=None):
        ctx.transition()
        e1 = ca == cb
        e2 = cb == ca
        case = ("pair", pa, pb)
        if e1 != e2:
            ctx.fail("symmetry", "a == b is %r but b == a is %r" % (e1, e2), case=case)
        if (ca != cb) == e1:
            ctx.fail("ne-inconsistent", "a != b is %r while a == b is %r" % (ca != cb, e1), case=case)
        sa, da = infoa or analyse(pa)
        sb, db = infob or analyse(pb)
        if e1 or e2:
            if da != db:
                ctx.fail("equal-but-different-meaning", "circuits compare equal, model meanings differ:\n%r\n%r" % (da, db), case=case)
            elif sa != sb:
                ctx.fail("equal-but-different-declarations", "circuits compare equal, symbolic forms differ:\n%r\n%r" % (sa, sb), case=case)
        return e1, (da != db)

    def run_case(self, case, ctx):
        kind = case[0]
        if kind == "pair":
            _, pa, pb = case
            try:
                ca, cb = impl.parse(render.text(pa)), impl.parse(render.text(pb))
            except impl.JaqalError:
                return
            self.compare(pa, pb, ca, cb, ctx)
            return
        if kind == "row":
            _, tier, i = case
            ps = get_pool(tier)
            if "circ" not in _POOL.get((tier, "c"), {}):
                _POOL[(tier, "c")] = {"circ": [impl.parse(render.text(p)) for p in ps], "info": [analyse(p) for p in ps]}
            cs, infos = _POOL[(tier, "c")]["circ"], _POOL[(tier, "c")]["info"]
            ca = cs[i]
            ctx.trace()
            # reflexivity and text round trip
            if not (ca == ca):
                ctx.fail("reflexive", "c != c", case=("pair", ps[i], ps[i]))
            fresh = impl.parse(render.text(ps[i]))
            if not (ca == fresh and fresh == ca):
                ctx.fail("reparse-unequal", "two parses of the same text differ", case=("pair", ps[i], ps[i]))
            back = impl.parse(impl.generate_jaqal_program(ca))
            if not (ca == back and back == ca):
                ctx.fail("generate-reparse-unequal", "c != parse(generate(c))", case=("pair", ps[i], ps[i]))
            neq = 0
            for j in range(len(ps)):
                e, differs = self.compare(ps[i], ps[j], ca, cs[j], ctx, infos[i], infos[j])
                if differs:
                    neq += 1
                    if not e:
                        ctx.nontriv((i, j))
            ctx.outcome("row")
            ctx.state(("row", i))
            return
        # mutants
        _, p = case
        text = render.text(p)
        ca = impl.parse(text)
        info = analyse(p)
        seen = {text}
        n_diff = n_same = n_rej = 0
        for m in mutants(p):
            t = render.text(m)
            if t in seen:
                continue
            seen.add(t)
            if not U.valid(m):
                n_rej += 1
                continue
            ctx.trace()
            try:
                cm = impl.parse(t)
            except impl.JaqalError:
                n_rej += 1
                continue
            e, differs = self.compare(p, m, ca, cm, ctx, info)
            ctx.state(t)
            if differs:
                n_diff += 1
                ctx.nontriv((text, t))
                if e:
                    pass  # already reported by compare() as equal-but-different-meaning
            else:
                n_same += 1
        ctx.count("mutants_meaning_differs", n_diff)
        ctx.count("mutants_meaning_same", n_same)
        ctx.count("mutants_invalid", n_rej)
        ctx.outcome("mutants")


CHECK = C20()

if __name__ == "__main__":
    import sys
    ps = get_pool(sys.argv[1])
    print(len(ps), sum(1 for p in ps[:50] for _ in mutants(p)) / 50)
