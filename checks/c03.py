"""C03 - emulator state = ordered product of gate unitaries on |0..0>.

Space   : product-exhaustive.  Register size n; gate alphabet {X, H, Rz, CX, A2, A3, I_X, N1} x every
          ordered tuple of distinct qubits of the right arity x theta in {0.3, -1.1}; every gate
          sequence up to a length; every structural embedding of the sequence from a menu (plain,
          one gate in `loop c` for c in {0,1,2,3} (literal; and `let k` valued 3, or 2 overridden
          to 0 through fill_in_let / through parse), all gates in a macro with qubit and angle parameters, qubits written
          through an alias of a strided alias, angles given by lets with and without override, two
          adjacent gates on disjoint qubits in a parallel block in both branch orders, a
          `subcircuit` block, the whole prepare/measure section inside `loop 2`, the section
          re-prepared after decoy gates - `prepare_all; G1 q[0]; g_1; prepare_all; ...; measure_all`,
          at top level and with the second prepare..measure inside `loop 2` - whose decoys the model
          discards, and the same plain program emulated under the fixture table and under an
          alternative native table with the same names/signatures but other matrices (X<->H,
          Rz<->Rx, CX reversed, other generic A2/A3/G1), in both orders within one case); the embedded
          section sits beside a plainly written *witness* section (everything the embedded section
          executes except its final gate application), in both orders, so every program has two
          subcircuits.
Model   : a small interpreter of the AST (own let/alias/macro/loop evaluation: element i of
          `map a s[lo:hi:st]` is element lo + i*st of s, composed along the chain) gives the
          serialised gate list of each prepare/measure section; mc.ref.sim multiplies the
          independently embedded dense matrices onto e_0.
Oracle  : number of subcircuits; state_vector == reference within 1e-9; simulated_probability_by_int
          == |amplitude|^2; differential chain: emulator state of the embedded section == F(last
          gate) applied to the emulator's *own* state of the witness section (for idle and
          unitary-less last gates: unchanged).
Clauses : <kind>/<embedding family>, kind in state, neighbour-state, chain, probability,
          subcircuit-count, shape, rejected, crash, non-termination.  A failure of an embedded
          program is attributed to the embedding only when the plainly written program of the same
          executed gates passes; otherwise it is reported once, as the plain family's failure.
          Failures are reported on the locally minimal case (greedy descent over shrink()).
"""
import itertools
import re

import numpy as np

from mc import gates, impl
from mc.framework import Check
from mc.fuel import OutOfFuel, fuel
from mc.ref import render, sim

TOL = 1e-9
REG = "q"
THETAS = (0.3, -1.1)
DECOY = 2.5  # declared value of a let that the override replaces
FULL = ("X", "H", "Rz", "CX", "A2", "A3", "I_X", "N1")
REDUCED = ("H", "Rz", "CX", "A2", "A3", "I_X")
REDUCED_THETA = {"Rz": (0.3,), "A2": (-1.1,)}
RANK = {g: i for i, g in enumerate(("X", "H", "I_X", "N1", "Rz", "CX", "A2", "A3"))}


# ------------------------------------------------------------------ alternative native table
# Same gate names and signatures as mc/gates.py, different matrices behind every name: anything
# the emulator keeps per gate *name/signature* across circuits (instead of per table) shows.
def _generic(dim, seed):
    rng = np.random.RandomState(seed)
    m = rng.normal(size=(dim, dim)) + 1j * rng.normal(size=(dim, dim))
    q, r = np.linalg.qr(m)
    d = np.diag(r)
    return q * (d / np.abs(d))


_B1, _B2, _B3, _BG = _generic(4, 21), _generic(4, 22), _generic(8, 23), _generic(2, 24)


def _alt_CX():
    # control and target exchanged: bit 1 of the matrix index (second argument) controls
    m = np.zeros((4, 4), dtype=complex)
    m[0, 0] = m[1, 1] = 1
    m[2, 3] = m[3, 2] = 1
    return m


def _alt_A2(theta):
    return _B1 @ np.diag(np.exp(-1j * theta * np.arange(2, 6))) @ _B2


ALT_UNITARY = {
    "X": gates.u_H,
    "H": gates.u_X,
    "G1": lambda: _BG.copy(),
    "Rz": gates.u_Rx,
    "Rx": gates.u_Rz,
    "CX": _alt_CX,
    "A2": _alt_A2,
    "A3": lambda: _B3.copy(),
}
ALT_SIGS = {}
for _n, (_kinds, _fn, _busy) in gates.SIGS.items():
    ALT_SIGS[_n] = (_kinds, ALT_UNITARY[_n] if _fn is not None else None, _busy)
assert all(gates.SIGS[_n][1] is not None for _n in ALT_UNITARY)


def alt_native_gates():
    """A fresh native table with exactly the names, parameter names and kinds of
    gates.native_gates() and the ALT matrices behind them."""
    table = {}
    for name, d in gates.native_gates(idle=False).items():
        kinds, fn, busy = ALT_SIGS[name]
        if busy:
            table[name] = impl.BusyGateDefinition(name)
            continue
        params = [impl.Parameter(p.name, p.kind) for p in d.parameters]
        assert len(params) == len(kinds)
        table[name] = impl.GateDefinition(name, params, ideal_unitary=fn) if fn else impl.GateDefinition(name, params)
    return impl.add_idle_gates(table)


TABLES = {"normal": (gates.native_gates, None), "alt": (alt_native_gates, ALT_SIGS)}
TABLE_RUNS = {"alttable": ("normal", "alt"), "alttable-rev": ("alt", "normal")}
DECOY_GATE = ("G1", (0,), ())  # generic one-qubit gate: G1 e_0 is never e_0


def _nq(name):
    return sum(1 for k in gates.SIGS[name][0] if k == "q")


def _nf(name):
    return sum(1 for k in gates.SIGS[name][0] if k != "q")


def alphabet(n, names=FULL, thetas=None):
    """Every gate instance (name, ordered tuple of distinct qubits, floats) on n qubits."""
    out = []
    for name in names:
        m = _nq(name)
        if m > n:
            continue
        th = THETAS if thetas is None else thetas.get(name, THETAS)
        for qs in itertools.permutations(range(n), m):
            for fl in itertools.product(th, repeat=_nf(name)):
                out.append((name, tuple(qs), tuple(fl)))
    return out


# =============================================================================== the model
class ModelError(Exception):
    """The model finds the program invalid (never expected for generated programs)."""


class Model:
    """RefJaqal restricted to what C03 needs: AST (+ override) -> per prepare/measure section
    the list of executed native gates (name, physical qubits, floats)."""

    def __init__(self, prog, override=None):
        _, header, body = prog
        override = dict(override or {})
        self.lets = {}
        self.cells = {}  # register / alias name -> list of physical qubit indices
        self.single = {}  # single-qubit alias -> physical index
        self.n = None
        for h in header:
            k = h[0]
            if k == "let":
                self._fresh(h[1])
                self.lets[h[1]] = override.get(h[1], h[2])
            elif k == "register":
                self._fresh(h[1])
                if self.n is not None:
                    raise ModelError("two fundamental registers")
                size = self._int(h[2])
                if size < 1:
                    raise ModelError("register size %r" % size)
                self.n = size
                self.cells[h[1]] = list(range(size))
            elif k == "map":
                self._fresh(h[1])
                src = self._cells(h[2])
                if len(h) == 3:
                    self.cells[h[1]] = list(src)
                elif len(h) == 4:
                    i = self._int(h[3])
                    if not 0 <= i < len(src):
                        raise ModelError("index %d outside %s" % (i, h[2]))
                    self.single[h[1]] = src[i]
                else:
                    lo, hi, st = h[3:6]
                    lo = 0 if lo is None else self._int(lo)
                    hi = len(src) if hi is None else self._int(hi)
                    st = 1 if st is None else self._int(st)
                    if st == 0:
                        raise ModelError("zero step")
                    out = []
                    i = 0
                    # element i of the alias is element lo + i*st of the source
                    while (st > 0 and lo + i * st < hi) or (st < 0 and lo + i * st > hi):
                        j = lo + i * st
                        if not 0 <= j < len(src):
                            raise ModelError("slice element %d outside %s" % (j, h[2]))
                        out.append(src[j])
                        i += 1
                    if not out:
                        raise ModelError("empty alias %s" % h[1])
                    self.cells[h[1]] = out
            elif k == "usepulses":
                pass
            else:
                raise ModelError("header item %r" % (h,))
        for name in override:
            if name not in self.lets:
                raise ModelError("override of undeclared let %s" % name)
        self.body = body

    def _fresh(self, name):
        if name in self.lets or name in self.cells or name in self.single:
            raise ModelError("%s defined twice" % name)

    def _int(self, x, binding=None):
        if isinstance(x, str):
            if binding and x in binding:
                x = binding[x]
            elif x in self.lets:
                x = self.lets[x]
            else:
                raise ModelError("undefined %s" % x)
        if isinstance(x, tuple) or isinstance(x, bool) or float(x) != int(x):
            raise ModelError("not an integer: %r" % (x,))
        return int(x)

    def _cells(self, name):
        if name not in self.cells:
            raise ModelError("%s is not a register" % name)
        return self.cells[name]

    def _arg(self, a, binding):
        """-> ('q', physical index) or a number"""
        if isinstance(a, tuple):
            _, name, idx = a
            if binding and name in binding:
                raise ModelError("indexing macro parameter %s" % name)
            src = self._cells(name)
            i = self._int(idx, binding)
            if not 0 <= i < len(src):
                raise ModelError("index %d outside %s" % (i, name))
            return ("q", src[i])
        if isinstance(a, str):
            if binding and a in binding:
                return binding[a]
            if a in self.lets:
                return self.lets[a]
            if a in self.single:
                return ("q", self.single[a])
            raise ModelError("undefined %s" % a)
        return a

    def sections(self):
        events = []
        macros = {}
        for s in self.body:
            if s[0] == "macro":
                if s[1] in macros or s[1] in gates.SIGS:
                    raise ModelError("macro %s defined twice" % s[1])
                macros[s[1]] = (s[2], s[3])  # visible to later statements only
            else:
                self._walk(s, None, dict(macros), events)
        out, cur = [], None
        for e in events:
            if e == "P":
                cur = []
            elif e == "M":
                if cur is None:
                    raise ModelError("measure without prepare")
                out.append(cur)
                cur = None
            else:
                if cur is None:
                    raise ModelError("gate outside prepare/measure")
                cur.append(e)
        if cur is not None:
            raise ModelError("open prepare")
        return out

    def _walk(self, s, binding, macros, events):
        k = s[0]
        if k == "gate":
            name, args = s[1], s[2]
            vals = [self._arg(a, binding) for a in args]
            if name in macros:
                params, block = macros[name]
                if len(params) != len(vals):
                    raise ModelError("macro %s arity" % name)
                # lexical: inside the body a parameter name denotes the parameter
                self._walk(block, dict(zip(params, vals)), macros, events)
                return
            if name not in gates.SIGS:
                raise ModelError("unknown gate %s" % name)
            kinds, _fn, busy = gates.SIGS[name]
            if len(kinds) != len(vals):
                raise ModelError("gate %s arity" % name)
            if busy:
                events.append("P" if name == "prepare_all" else "M")
                return
            qs, fl = [], []
            for kind, v in zip(kinds, vals):
                if kind == "q":
                    if not (isinstance(v, tuple) and v[0] == "q"):
                        raise ModelError("%s wants a qubit, got %r" % (name, v))
                    qs.append(v[1])
                else:
                    if isinstance(v, tuple):
                        raise ModelError("%s wants a number, got %r" % (name, v))
                    fl.append(float(v))
            if len(set(qs)) != len(qs):
                raise ModelError("repeated qubit in %s" % name)
            events.append((name, tuple(qs), tuple(fl)))
        elif k in ("seq", "par"):
            if k == "par":
                used = []
                for b in s[1]:
                    ev = []
                    self._walk(b, binding, macros, ev)
                    qs = set()
                    for e in ev:
                        if e in ("P", "M"):
                            raise ModelError("prepare/measure in a parallel block")
                        if e[0] not in gates.IDLE:
                            qs |= set(e[1])
                    for o in used:
                        if o & qs:
                            raise ModelError("parallel branches share a qubit")
                    used.append(qs)
                    # disjoint branches commute: any interleaving gives this product
                    events.extend(ev)
            else:
                for b in s[1]:
                    self._walk(b, binding, macros, events)
        elif k == "loop":
            count = self._int(s[1], binding)
            if count < 0:
                raise ModelError("negative loop count")
            once = []
            self._walk(s[2], binding, macros, once)
            if "P" in once or "M" in once:
                # subcircuits are numbered in flat (textual) order: a loop around whole
                # prepare/measure sections repeats their *visits*, not their gates
                if once[0] != "P" or once[-1] != "M":
                    raise ModelError("loop body straddles a prepare/measure section")
                events.extend(once)
            else:
                for _ in range(count):
                    events.extend(once)
        elif k == "sub":
            events.append("P")
            for b in s[2]:
                self._walk(b, binding, macros, events)
            events.append("M")
        else:
            raise ModelError("statement %r" % (s,))


# =============================================================================== program builder
def alias_header(n):
    """Two strided aliases of the register and aliases of those, so that every physical qubit is
    written through a second-level alias."""
    h = [("map", "ev", REG, 0, n, 2)]
    lev = (n + 1) // 2
    h.append(("map", "ea", "ev", 0, 1, None))
    if lev >= 2:
        h.append(("map", "eb", "ev", 1, lev, None))
    if n >= 2:
        h.append(("map", "od", REG, 1, n, 2))
        h.append(("map", "oa", "od"))
    return tuple(h)


SECOND_LEVEL = ("ea", "eb", "oa")


LOOP_COUNTS = (0, 1, 2, 3)
LETLOOP = {  # family -> (declared value of `let k`, override value or None, route)
    "letloop": (3, None, None),
    "letloopov-pass": (2, 0, "fill_in_let"),
    "letloopov-parse": (2, 0, "parse"),
}
LETLOOP_MAX_LEN = 2
_EMB = re.compile(r"^(?:(loop)(\d)at(\d+)|(letloop|letloopov-pass|letloopov-parse)at(\d+)|(r?par)(\d+))$")


def parts(emb):
    """embedding name -> (base name, effective loop count or None, gate position or None)"""
    m = _EMB.match(emb)
    if not m:
        return emb, None, None
    if m.group(1):
        return "loop", int(m.group(2)), int(m.group(3))
    if m.group(4):
        decl, ov, _route = LETLOOP[m.group(4)]
        return m.group(4), decl if ov is None else ov, int(m.group(5))
    return m.group(6), None, int(m.group(7))


def emb_name(base, count, idx):
    if base == "loop":
        return "loop%dat%d" % (count, idx)
    if base in LETLOOP:
        return "%sat%d" % (base, idx)
    if idx is not None:
        return "%s%d" % (base, idx)
    return base


def family(emb):
    base = parts(emb)[0]
    return "par" if base == "rpar" else base


def embeddings(seq):
    """Names of the embeddings that apply to a gate sequence."""
    L = len(seq)
    out = ["plain", "reprepare", "reprepare-loop"]
    if L == 0:
        return out
    out += ["loop%dat%d" % (c, i) for i in range(L) for c in LOOP_COUNTS]
    if L <= LETLOOP_MAX_LEN:
        out += ["%sat%d" % (f, i) for i in range(L) for f in LETLOOP]
    out += ["macro", "alias"]
    if any(g[2] for g in seq):
        out += ["let", "letov-pass", "letov-parse"]
    for i in range(L - 1):
        if not set(seq[i][1]) & set(seq[i + 1][1]):
            out += ["par%d" % i, "rpar%d" % i]
    out.append("sub")
    out.append("secloop")
    out += list(TABLE_RUNS)
    return out


def expected_expansion(emb, seq):
    """What the embedded section executes, derived directly from the embedding's definition
    (second route, compared with the interpreter's answer on the built program)."""
    base, count, i = parts(emb)
    if base == "loop" or base in LETLOOP:
        # the body is applied `count` times (0 = never)
        return list(seq[:i]) + [seq[i]] * count + list(seq[i + 1:])
    if base == "rpar":
        # branches written in the other order; serialised as written (the two commute)
        return list(seq[:i]) + [seq[i + 1], seq[i]] + list(seq[i + 2:])
    return list(seq)


def _plain_gate(g):
    name, qs, fl = g
    return ("gate", name, tuple(("item", REG, i) for i in qs) + tuple(fl))


def build(case):
    """case -> (program AST, override dict or None, route)"""
    n, emb, pos, seq = case
    if emb not in embeddings(seq):
        raise ValueError("embedding %s does not apply to %r" % (emb, seq))
    header = [("register", REG, n)]
    macros = []
    override = None
    route = None
    fam = family(emb)
    witness_gates = expected_expansion(emb, seq)[:-1]
    W = (("gate", "prepare_all", ()),) + tuple(_plain_gate(g) for g in witness_gates) + (("gate", "measure_all", ()),)

    if fam == "alias":
        ah = alias_header(n)
        header += list(ah)
        cells = Model(("prog", tuple(header), ())).cells

        def written(i):
            for a in SECOND_LEVEL:
                if a in cells and i in cells[a]:
                    return ("item", a, cells[a].index(i))
            raise AssertionError("qubit %d not reachable through the aliases" % i)

        stmts = [("gate", g[0], tuple(written(i) for i in g[1]) + tuple(g[2])) for g in seq]
    elif fam in ("let", "letov-pass", "letov-parse"):
        stmts = []
        if fam != "let":
            override = {}
            route = "fill_in_let" if fam == "letov-pass" else "parse"
        for i, g in enumerate(seq):
            if g[2]:
                names = tuple("t%d_%d" % (i, j) if len(g[2]) > 1 else "t%d" % i for j in range(len(g[2])))
                for nm, v in zip(names, g[2]):
                    if override is None:
                        header.append(("let", nm, v))
                    else:
                        header.append(("let", nm, DECOY))
                        override[nm] = v
                stmts.append(("gate", g[0], tuple(("item", REG, q) for q in g[1]) + names))
            else:
                stmts.append(_plain_gate(g))
    elif fam == "macro":
        qparams = {}
        params, call = [], []
        body = []
        for g in seq:
            for q in g[1]:
                if q not in qparams:
                    qparams[q] = "p%d" % len(qparams)
                    params.append(qparams[q])
                    call.append(("item", REG, q))
        for i, g in enumerate(seq):
            fnames = []
            for j, v in enumerate(g[2]):
                nm = "t%d" % i if len(g[2]) == 1 else "t%d_%d" % (i, j)
                fnames.append(nm)
                params.append(nm)
                call.append(v)
            body.append(("gate", g[0], tuple(qparams[q] for q in g[1]) + tuple(fnames)))
        macros.append(("macro", "m", tuple(params), ("seq", tuple(body))))
        stmts = [("gate", "m", tuple(call))]
    else:
        stmts = [_plain_gate(g) for g in seq]
        if fam == "loop":
            _b, count, i = parts(emb)
            stmts[i] = ("loop", count, ("seq", (stmts[i],)))
        elif fam in LETLOOP:
            decl, ov, route = LETLOOP[fam]
            i = parts(emb)[2]
            header.append(("let", "k", decl))
            if ov is not None:
                override = {"k": ov}
            stmts[i] = ("loop", "k", ("seq", (stmts[i],)))
        elif fam == "par":
            i = parts(emb)[2]
            a, b = stmts[i], stmts[i + 1]
            if emb.startswith("rpar"):
                a, b = b, a
            stmts[i:i + 2] = [("par", (a, b))]

    P, M = ("gate", "prepare_all", ()), ("gate", "measure_all", ())
    if fam in ("reprepare", "reprepare-loop"):
        # gates before a repeated prepare_all are discarded: a generic decoy (and the first gate of
        # the sequence once more) sit between the first prepare_all and the one that counts
        decoys = (_plain_gate(DECOY_GATE),) + tuple(stmts[:1])
        if fam == "reprepare":
            E = (P,) + decoys + (P,) + tuple(stmts) + (M,)
        else:
            E = (P,) + decoys + (("loop", 2, ("seq", (P,) + tuple(stmts) + (M,))),)
    elif fam == "sub":
        E = (("sub", None, tuple(stmts)),)
    elif fam == "secloop":
        # the whole prepare/measure section repeated by a loop: one subcircuit, visited twice
        E = (("loop", 2, ("seq", (("gate", "prepare_all", ()),) + tuple(stmts) + (("gate", "measure_all", ()),))),)
    else:
        E = (("gate", "prepare_all", ()),) + tuple(stmts) + (("gate", "measure_all", ()),)
    body = tuple(macros) + (E + W if pos == 0 else W + E)
    return ("prog", tuple(header), body), override, route


def describe_program(prog, override, route):
    s = render.oneline(prog)
    if override:
        s += "  ## override %s via %s" % (
            ", ".join("%s=%s" % (k, render.num(v)) for k, v in sorted(override.items())), route)
    return s


# =============================================================================== the check
def _fmt(v):
    return "[" + ", ".join("%.4g%+.4gj" % (z.real, z.imag) for z in np.asarray(v)) + "]"


class C03(Check):
    id = "C03"
    nshards = 96
    rule = (
        "product-exhaustive: register size (1-3; 4-6 for one gate and 4 for two gates, thorough 5-7 / 5) x every gate sequence up to the length bound over "
        "{X,H,Rz,CX,A2,A3,I_X,N1} x every ordered tuple of distinct qubits x theta in {0.3,-1.1} x "
        "every applicable embedding (plain, loop c around one gate for c in 0..3 literal and let-valued with/without "
        "override to 0, macro with qubit+angle parameters, "
        "alias of a strided alias, let, let+override via fill_in_let / via parse, parallel block in "
        "both branch orders, subcircuit block, whole section inside loop 2, re-prepare after decoy gates at top "
        "level / into a loop, normal-then-alternative and alternative-then-normal native table) x position of the embedded section (first/second of two "
        "subcircuits); non-trivial = the reference state of the embedded section differs from e_0; "
        "distinct by program text and override"
    )
    assumptions = (
        "gate matrices are those of mc/gates.py (generic A2/A3, asymmetric CX) or, for the table embeddings, of the "
        "alternative table built in this module; one fundamental register",
        "gates between two prepare_all of one section are discarded (C12's reading); the state is the product of the "
        "gates after the last prepare_all",
        "tolerance 1e-9 per amplitude and per probability",
        "parallel branches are only generated on disjoint written qubits, where every interleaving gives the same product",
        "embeddings are applied one at a time (combinations of let-override with subcircuit blocks etc. belong to C05/C09/C10)",
        "the emulator is run through run_jaqal_circuit with the default backend; loop counts 0..3; the loop around a whole section has count 2",
    )

    def bounds(self, tier):
        if tier == "quick":
            return {"n": [1, 2, 3], "max_len_full_alphabet": 2, "len3_reduced_alphabet_n": [],
                    "wide_n_single_gate_all_embeddings": [4, 5, 6], "wide_n_two_gates_plain_alias_macro": [4],
                    "thetas": list(THETAS), "loop_counts": list(LOOP_COUNTS),
                    "let_loop_counts": [3, "2 overridden to 0"], "subcircuits_per_program": 2}
        return {"n": [1, 2, 3, 4], "max_len_full_alphabet": 2, "len3_reduced_alphabet_n": [1, 2, 3],
                "wide_n_single_gate_all_embeddings": [5, 6, 7], "wide_n_two_gates_plain_alias_macro": [5],
                "reduced_alphabet": list(REDUCED), "thetas": list(THETAS), "loop_counts": list(LOOP_COUNTS),
                "let_loop_counts": [3, "2 overridden to 0"], "let_loop_max_len": LETLOOP_MAX_LEN,
                "subcircuits_per_program": 2}

    # ------------------------------------------------------------------ enumeration
    def sequences(self, tier):
        b = self.bounds(tier)
        for n in b["n"]:
            A = alphabet(n)
            for L in range(0, b["max_len_full_alphabet"] + 1):
                for seq in itertools.product(A, repeat=L):
                    yield n, tuple(seq)
        for n in b["len3_reduced_alphabet_n"]:
            A = alphabet(n, REDUCED, REDUCED_THETA)
            for seq in itertools.product(A, repeat=3):
                yield n, tuple(seq)

    WIDE_TWO = ("plain", "alias", "macro")

    def wide_sequences(self, tier):
        """wider registers: every ordered qubit tuple of every gate on n = 4..7 qubits (a 3-qubit gate on a
        non-contiguous or permuted tuple needs n >= 4), one gate under every embedding, two under three"""
        b = self.bounds(tier)
        for n in b["wide_n_single_gate_all_embeddings"]:
            for g in alphabet(n):
                yield n, (g,), None
        for n in b["wide_n_two_gates_plain_alias_macro"]:
            A = alphabet(n)
            for seq in itertools.product(A, repeat=2):
                yield n, tuple(seq), self.WIDE_TWO

    def all_cases(self, tier):
        for n, seq, only in self.wide_sequences(tier):
            for emb in embeddings(seq):
                if only is not None and emb not in only:
                    continue
                yield (n, emb, 0, seq)
                if emb not in TABLE_RUNS:
                    yield (n, emb, 1, seq)
        for n, seq in self.sequences(tier):
            for emb in embeddings(seq):
                yield (n, emb, 0, seq)
                if seq and emb not in TABLE_RUNS:
                    yield (n, emb, 1, seq)

    # ------------------------------------------------------------------ presentation
    def show(self, case):
        try:
            return describe_program(*build(case))
        except Exception:  # noqa: BLE001
            return repr(case)

    # ------------------------------------------------------------------ shrinking
    def shrink(self, case):
        n, emb, pos, seq = case
        seq = tuple(seq)
        fam = family(emb)

        def ok(c):
            return c[1] in embeddings(c[3])

        base, count, at = parts(emb)

        def idx():
            return at

        cands = []
        # drop one gate
        for i in range(len(seq)):
            rest = seq[:i] + seq[i + 1:]
            e = emb
            k = idx()
            if k is not None:
                span = (k, k + 1) if fam == "par" else (k,)
                if i in span:
                    continue
                if i < k:
                    e = emb_name(base, count, k - 1)
            cands.append((n, e, pos, rest))
        # smaller literal loop count
        if base == "loop":
            for c in range(count):
                cands.append((n, emb_name(base, c, at), pos, seq))
        # embedded section first
        if pos:
            cands.append((n, emb, 0, seq))
        # simpler gate in place
        for i, g in enumerate(seq):
            for name in sorted(RANK, key=RANK.get):
                if RANK[name] >= RANK[g[0]]:
                    break
                m = _nq(name)
                if m > len(g[1]):
                    continue
                for qs in itertools.permutations(g[1], m):
                    for fl in itertools.product(THETAS[:1], repeat=_nf(name)):
                        cands.append((n, emb, pos, seq[:i] + ((name, tuple(qs), tuple(fl)),) + seq[i + 1:]))
        # lower qubit index
        for i, g in enumerate(seq):
            for j, q in enumerate(g[1]):
                for q2 in range(q):
                    if q2 not in g[1]:
                        qs = g[1][:j] + (q2,) + g[1][j + 1:]
                        cands.append((n, emb, pos, seq[:i] + ((g[0], qs, g[2]),) + seq[i + 1:]))
        # qubit arguments in ascending order
        for i, g in enumerate(seq):
            if tuple(sorted(g[1])) != g[1]:
                cands.append((n, emb, pos, seq[:i] + ((g[0], tuple(sorted(g[1])), g[2]),) + seq[i + 1:]))
        # smaller register
        if n > 1 and all(q < n - 1 for g in seq for q in g[1]):
            cands.append((n - 1, emb, pos, seq))
        # first theta
        for i, g in enumerate(seq):
            for j, v in enumerate(g[2]):
                if v != THETAS[0]:
                    fl = g[2][:j] + (THETAS[0],) + g[2][j + 1:]
                    cands.append((n, emb, pos, seq[:i] + ((g[0], g[1], fl),) + seq[i + 1:]))
        seen = set()
        for c in cands:
            if c not in seen and ok(c):
                seen.add(c)
                yield c

    # ------------------------------------------------------------------ model self-consistency
    def selfcheck(self):
        sim.selftest(nmax=3)
        # alias arithmetic against hand-written tables
        want = {
            1: {"ev": [0], "ea": [0]},
            2: {"ev": [0], "ea": [0], "od": [1], "oa": [1]},
            3: {"ev": [0, 2], "ea": [0], "eb": [2], "od": [1], "oa": [1]},
            4: {"ev": [0, 2], "ea": [0], "eb": [2], "od": [1, 3], "oa": [1, 3]},
            5: {"ev": [0, 2, 4], "ea": [0], "eb": [2, 4], "od": [1, 3], "oa": [1, 3]},
        }
        for n, tab in want.items():
            cells = Model(("prog", (("register", REG, n),) + alias_header(n), ())).cells
            got = {k: v for k, v in cells.items() if k != REG}
            assert got == tab, (n, got, tab)
        # chains, negative steps, defaults, lets in bounds
        m = Model(("prog", (("let", "k", 1), ("register", REG, 6), ("map", "a", REG, 5, 0, -2),
                            ("map", "b", "a", "k", None, None), ("map", "c", "b", 1), ("map", "d", REG, None, None, 3)), ()))
        assert m.cells["a"] == [5, 3, 1] and m.cells["b"] == [3, 1] and m.single["c"] == 1 and m.cells["d"] == [0, 3]
        # every embedding of a fixed sequence: interpreter == definition
        seq = (("A2", (2, 0), (-1.1,)), ("Rz", (1,), (0.3,)), ("CX", (1, 2), ()))
        for emb in embeddings(seq):
            for pos in (0, 1):
                self._model((3, emb, pos, seq))
        # macro parameters shadow header names; overrides apply
        p = ("prog", (("let", "t", 0.5), ("register", REG, 2)),
             (("macro", "m", ("t", "p"), ("seq", (("gate", "Rz", ("p", "t")),))),
              ("gate", "prepare_all", ()), ("gate", "m", (0.25, ("item", REG, 1))), ("gate", "Rz", (("item", REG, 0), "t")),
              ("gate", "measure_all", ())))
        assert Model(p, {"t": 2.0}).sections() == [[("Rz", (1,), (0.25,)), ("Rz", (0,), (2.0,))]]

    def _model(self, case):
        """-> (prog, override, route, gates of the embedded section, gates of the witness, index of E)"""
        n, emb, pos, seq = case
        prog, override, route = build(case)
        secs = Model(prog, override).sections()
        if len(secs) != 2:
            raise AssertionError("model found %d sections in %s" % (len(secs), render.oneline(prog)))
        kE = 0 if pos == 0 else 1
        GE, GW = secs[kE], secs[1 - kE]
        exp = expected_expansion(emb, seq)
        if GE != exp or GW != exp[:-1]:
            raise AssertionError("model interpreter and embedding definition disagree on %r: %r / %r vs %r" % (case, GE, GW, exp))
        return prog, override, route, GE, GW, kE

    # ------------------------------------------------------------------ one case
    def evaluate(self, case, ctx=None):
        """-> list of (clause, detail); counters go to ctx when given"""
        n, emb, pos, seq = case
        fam = family(emb)
        prog, override, route, GE, GW, kE = self._model(case)
        text = render.text(prog)
        ident = describe_program(prog, override, route)
        fails, verdict = [], "ok"
        # the table embeddings emulate the same program under two native tables, one after the other
        for which in TABLE_RUNS.get(fam, ("normal",)):
            if ctx is not None:
                ctx.trace()
            fails, verdict = self._one_run(case, which, text, ident, override, route, GE, GW, kE, ctx)
            if fails:
                if fam in TABLE_RUNS:
                    fails = [(c, "with the %s native table (tables used in this order: %s): %s" % (
                        which, ", ".join(TABLE_RUNS[fam]), d)) for c, d in fails]
                break
        if ctx is not None:
            ctx.outcome("%s:%s" % (fam, verdict))
        return fails

    def _one_run(self, case, which, text, ident, override, route, GE, GW, kE, ctx):
        """One emulation of the program under the native table `which` -> (failures, verdict class)"""
        n, emb, pos, seq = case
        fam = family(emb)
        make_table, sigs = TABLES[which]
        refE = sim.run_sequence(n, GE, sigs=sigs)
        refW = sim.run_sequence(n, GW, sigs=sigs)
        e0 = sim.zero_state(n)
        trivial = bool(np.allclose(refE, e0, atol=1e-12))
        if ctx is not None:
            ctx.state((n, sim.key(refE)))
            ctx.state((n, sim.key(refW)))
            ctx.transition(len(GE) + len(GW))
            if not trivial:
                ctx.nontriv(ident if which == "normal" else ident + " ## " + which)
        fails = []

        ngates = len(GE) + len(GW) + 8
        budget = 300000 + 2000 * ngates * 4 ** n
        try:
            with fuel(budget):
                if route == "parse":
                    c = impl.parse(text, inject_pulses=make_table(), override_dict=dict(override), expand_let=True)
                else:
                    c = impl.parse(text, inject_pulses=make_table())
                    if route == "fill_in_let":
                        c = impl.fill_in_let(c, dict(override))
                res = impl.run_jaqal_circuit(c)
                subs = list(res.subcircuits)
                got = [np.array(s.state_vector, dtype=complex) for s in subs]
                probs = [np.array(s.simulated_probability_by_int, dtype=float) for s in subs]
        except OutOfFuel:
            return [("non-termination/" + fam, "no result within %d steps" % budget)], "non-termination"
        except impl.JaqalError as e:
            return [("rejected/" + fam, "valid program rejected with JaqalError: %s" % e)], "rejected"
        except Exception as e:  # noqa: BLE001
            return [("crash/" + fam, "%s: %s" % (type(e).__name__, e))], "crash"

        if len(subs) != 2:
            return [("subcircuit-count/" + fam, "2 prepare/measure sections, emulator reports %d subcircuits" % len(subs))], "subcircuit-count"
        gotE, gotW = got[kE], got[1 - kE]
        dim = 2 ** n
        if gotE.shape != (dim,) or gotW.shape != (dim,):
            return [("shape/" + fam, "state vectors of shape %r / %r for %d qubits" % (gotE.shape, gotW.shape, n))], "shape"

        # differential chain from the emulator's own witness state
        if GE:
            chained = sim.apply(gotW, GE[-1][0], GE[-1][1], GE[-1][2], n, sigs)
            chain_ok = bool(np.max(np.abs(chained - gotE)) <= 2 * TOL)
            chain_txt = "F(last gate) applied to the emulator's own witness state %s the emulator's state" % (
                "reproduces" if chain_ok else "does NOT reproduce")
        else:
            chain_ok, chain_txt = True, ""

        okE = bool(np.max(np.abs(gotE - refE)) <= TOL)
        okW = bool(np.max(np.abs(gotW - refW)) <= TOL)
        if not okE:
            fails.append(("state/" + fam, "subcircuit %d (%s): required %s, emulator %s; %s" % (
                kE, " ; ".join(_gtxt(g) for g in GE) or "no gates", _fmt(refE), _fmt(gotE), chain_txt)))
        if not okW and (fam == "plain" and pos == 0 and not GW or (fam in TABLE_RUNS and okE) or (fam not in TABLE_RUNS and not self._plain_fails(n, GW))):
            # only a finding of its own when the same witness passes as a program of its own
            # (otherwise the plain case reports it)
            fails.append(("neighbour-state/" + fam, "plainly written subcircuit %d (%s) beside the embedded one: required %s, emulator %s" % (
                1 - kE, " ; ".join(_gtxt(g) for g in GW) or "no gates", _fmt(refW), _fmt(gotW))))
        if okE and okW and not chain_ok:
            fails.append(("chain/" + fam, "both states match the reference but %s" % chain_txt))
        for k, g, r, p in ((kE, gotE, refE, probs[kE]), (1 - kE, gotW, refW, probs[1 - kE])):
            if p.shape != (dim,) or np.max(np.abs(p - np.abs(g) ** 2)) > TOL:
                fails.append(("probability/" + fam, "subcircuit %d: simulated_probability_by_int %s is not |amplitude|^2 of its own state vector %s" % (
                    k, np.round(p, 6).tolist(), _fmt(g))))
                break
            if (okE and okW) and np.max(np.abs(p - np.abs(r) ** 2)) > TOL:
                fails.append(("probability/" + fam, "subcircuit %d: simulated_probability_by_int %s, required %s" % (
                    k, np.round(p, 6).tolist(), np.round(np.abs(r) ** 2, 6).tolist())))
                break
        if fails:
            return fails, fails[0][0].split("/")[0] + "-mismatch"
        if trivial:
            return fails, "ok-unchanged"
        if GE and sim.full_matrix(GE[-1][0], GE[-1][1], GE[-1][2], n, sigs) is None:
            return fails, "ok-noaction-last"
        if np.max(np.abs(refE)) > 1 - 1e-9:
            return fails, "ok-basis"
        return fails, "ok-superposed"

    def run_case(self, case, ctx):
        fails = self.evaluate(case, ctx)
        # report each failed clause on the locally minimal case reached by a memoised greedy descent
        # over shrink(): thousands of failing programs of one family then name the same few inputs
        for clause, detail in fails:
            kind, fam = clause.split("/")
            at = case
            if fam != "plain" and fam not in TABLE_RUNS:
                # not specific to the embedding when the plainly written program of the same executed
                # gates fails the same way: then it is reported as the plain family's failure
                pc = (case[0], "plain", case[2], tuple(expected_expansion(case[1], case[3])))
                if any(c == kind + "/plain" for c, _d in self._fails_of(pc)):
                    clause, at = kind + "/plain", pc
            small = self._minimise(clause, at)
            if small != case:
                detail = next(d for c, d in self._fails_of(small) if c == clause)
            ctx.fail(clause, detail, case=small)

    def _plain_fails(self, n, gate_list):
        case = (n, "plain", 0, tuple(gate_list))
        return any(c == "state/plain" for c, _d in self._fails_of(case))

    _eval_memo = {}
    _min_memo = {}

    def _fails_of(self, case):
        memo = self._eval_memo
        if case not in memo:
            if len(memo) > 200000:
                memo.clear()
            memo[case] = tuple(self.evaluate(case))
        return memo[case]

    _work = [0]  # candidate evaluations spent on minimising in this process
    WORK_CAP = 40000

    def _minimise(self, clause, case):
        memo = self._min_memo
        if self._work[0] > self.WORK_CAP:
            return memo.get((clause, case), case)
        path = []
        cur = case
        while True:
            key = (clause, cur)
            if key in memo:
                cur = memo[key]
                break
            path.append(key)
            nxt = None
            for cand in self.shrink(cur):
                self._work[0] += 1
                if any(c == clause for c, _d in self._fails_of(cand)):
                    nxt = cand
                    break
            if nxt is None:
                break
            cur = nxt
        for key in path:
            memo[key] = cur
        return cur


def _gtxt(g):
    return " ".join([g[0]] + ["q[%d]" % i for i in g[1]] + [render.num(v) for v in g[2]])


CHECK = C03()

if __name__ == "__main__":
    import sys
    from collections import Counter

    for tier in sys.argv[1:] or ["quick", "thorough"]:
        cnt = Counter()
        for case in CHECK.all_cases(tier):
            cnt[(case[0], len(case[3]))] += 1
        print(tier, sum(cnt.values()), sorted(cnt.items()))
