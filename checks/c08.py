"""C08 - execution terminates and yields one readout per subcircuit visit, in order.

Space   : tree-exhaustive nests bounded by total node count.
          family A  Body := Item*, Item := PM_i | SUB_i | loop c { Body } | { Body } (top level) |
                    < { Body } > (small sizes); PM_i = `prepare_all; flips_i; measure_all` written
                    inline, SUB_i = `subcircuit { flips_i }`; c in 0..3
          family B  the same wrappers over the open leaves P = `prepare_all`, M_i = `flips_i;
                    measure_all` (and PM_i), kept when the C12 model accepts the program with at
                    least one subcircuit: pairs that straddle a block or loop boundary, repeated
                    and trailing prepare_all.  Where the unrolled execution is not itself
                    well-bracketed (mc.ref.execute.coherent) failures carry the prefix `straddle:`
          variants  counts literal; every count a let; lets declared with a wrong value and
                    overridden (all of them / only the first) through fill_in_let(circuit, override)
          flips_i = X on the qubits of the binary expansion of i+1, so that the value of a readout
          names the subcircuit (flat order) that produced it.
Oracle  : mc.ref.execute.visits - unroll all loops, emit the flat-order index of the enclosing
          prepare/measure pair at every executed measure_all.  Under fuel run_jaqal_circuit must
          terminate with exactly that sequence of readouts (attribution, running index, value),
          per-subcircuit readout lists and relative frequencies must be the matching subsequences /
          counts, subcircuits must be numbered in flat order; parse_jaqal_output_list must attribute
          outs[j] to visits[j] for every output list over {0..2^n-1} (n = 1, 2; ints and strings).
"""
import itertools

from mc import gates, impl
from mc.combi import TreeGrammar
from mc.framework import Check
from mc.fuel import OutOfFuel, fuel
from mc.ref import execute as E
from mc.ref import render

from checks import nestlib

TOP = ("top", False)
MAX_SUBCIRCUITS = 6
VARIANTS = ("lit", "let", "ovr", "mix")


# ---------------------------------------------------------------- enumeration
def _rules(leaves, loops, parseq=False, topseq=True):
    R = {}
    for in_par in (False, True):
        lv = [l for l in leaves if not (in_par and l == "SUB")]
        sq = ("seq", in_par)
        st = [("L", lv, "leaf", None), ("loop", list(loops), "many", sq)]
        if parseq:
            st.append(("parseq", [None], "many", ("seq", True)))
        R[sq] = st
    R[TOP] = list(R[("seq", False)])
    if topseq:
        R[TOP].append(("seq", [None], "many", ("seq", False)))
    return R


GRAMMARS = {
    # family A
    "A-par": TreeGrammar(_rules(("PM", "SUB"), (0, 1, 2, 3), parseq=True)),
    "A-rich": TreeGrammar(_rules(("PM", "SUB"), (0, 1, 2, 3))),
    "A-mid": TreeGrammar(_rules(("PM", "SUB"), (0, 2, 3))),
    "A-lean": TreeGrammar(_rules(("PM", "SUB"), (0, 2))),
    "A-core": TreeGrammar(_rules(("PM",), (0, 2), topseq=False)),
    # family B (filtered by the C12 model)
    "B-rich": TreeGrammar(_rules(("P", "M", "PM"), (0, 1, 2, 3))),
    "B-mid": TreeGrammar(_rules(("P", "M"), (0, 1, 2, 3))),
    "B-lean": TreeGrammar(_rules(("P", "M"), (0, 2), topseq=False)),
}
GRAMMAR_DOC = {
    "A-par": "leaves PM SUB; loop 0/1/2/3; top-level {..}; <{..}>",
    "A-rich": "leaves PM SUB; loop 0/1/2/3; top-level {..}",
    "A-mid": "leaves PM SUB; loop 0/2/3; top-level {..}",
    "A-lean": "leaves PM SUB; loop 0/2; top-level {..}",
    "A-core": "leaf PM; loop 0/2",
    "B-rich": "leaves P M PM; loop 0/1/2/3; top-level {..}; model-accepted only",
    "B-mid": "leaves P M; loop 0/1/2/3; top-level {..}; model-accepted only",
    "B-lean": "leaves P M; loop 0/2; model-accepted only",
}

_CLOSERS = ("PM", "SUB", "M")  # leaves that carry a measure_all


def legal(forest, top=True, in_par=False):
    for t in forest:
        k = t[0]
        if k == "L":
            if t[1] not in ("PM", "SUB", "P", "M") or (in_par and t[1] == "SUB"):
                return False
        elif k == "loop":
            if t[1] not in (0, 1, 2, 3) or not legal(t[2], False, in_par):
                return False
        elif k == "seq":
            if not top or not legal(t[2], False, in_par):
                return False
        elif k == "parseq":
            if not legal(t[2], False, True):
                return False
        else:
            return False
    return True


def n_closers(forest):
    return sum(1 for l in nestlib.leaves(forest) if l[1] in _CLOSERS)


def n_loops(forest):
    return sum(1 for t in nestlib.walk(forest) if t[0] == "loop")


def pattern(i):
    """the readout value (qubit 0 = least significant bit) that names subcircuit i"""
    return i + 1


_PATTERN = pattern


def register_size(nsub):
    return max(1, nsub.bit_length())


def wrong(c):
    return 3 - c


def _flips(i, nq):
    v = pattern(i) & ((1 << nq) - 1)
    return tuple(("gate", "X", (("item", "q", b),)) for b in range(nq) if v >> b & 1)


_FLIPS = _flips
_P = ("gate", "prepare_all", ())
_M = ("gate", "measure_all", ())


def to_prog(forest, variant="lit", nq=None, same=False):
    """-> (program AST, override dict, env the program is to be executed in)
    nq: register size (default: just large enough for the patterns; smaller => patterns masked)"""
    nsub = n_closers(forest)
    if nq is None:
        nq = register_size(nsub)
    counter = [0, 0]  # next subcircuit index, next loop index
    lets = []
    override = {}
    _flips = (lambda i, nq: _FLIPS(0, nq)) if same else _FLIPS  # same: every subcircuit has the gates of subcircuit 0

    def conv_items(items):
        out = []
        for t in items:
            k = t[0]
            if k == "L":
                leaf = t[1]
                if leaf == "P":
                    out.append(_P)
                    continue
                i = counter[0]
                counter[0] += 1
                if leaf == "PM":
                    out.append(_P)
                    out.extend(_flips(i, nq))
                    out.append(_M)
                elif leaf == "SUB":
                    out.append(("sub", None, _flips(i, nq)))
                else:
                    out.extend(_flips(i, nq))
                    out.append(_M)
            elif k == "loop":
                c = t[1]
                if variant == "lit":
                    count = c
                else:
                    name = "n%d" % counter[1]
                    overridden = variant == "ovr" or (variant == "mix" and counter[1] == 0)
                    lets.append(("let", name, wrong(c) if overridden else c))
                    if overridden:
                        override[name] = c
                    count = name
                    counter[1] += 1
                out.append(("loop", count, ("seq", conv_items(t[2]))))
            elif k == "seq":
                out.append(("seq", conv_items(t[2])))
            elif k == "parseq":
                out.append(("par", (("seq", conv_items(t[2])),)))
            else:
                raise ValueError(t)
        return tuple(out)

    body = conv_items(forest)
    header = tuple(lets) + (("register", "q", nq),)
    env = {h[1]: override.get(h[1], h[2]) for h in lets}
    return ("prog", header, body), override, env


# ---------------------------------------------------------------- independent formulations (selfcheck, states)
def leaf_walk(forest):
    """Third formulation of the visit sequence, on the forest itself: unroll the loops and list
    every executed measure-carrying leaf as (its index in preorder, path of child positions,
    loop iteration numbers)."""
    index = {}
    k = 0
    for path, t in _paths(forest, ()):
        if t[0] == "L" and t[1] in _CLOSERS:
            index[path] = k
            k += 1
    out = []

    def run(items, path, iters):
        for pos, t in enumerate(items):
            p = path + (pos,)
            if t[0] == "L":
                if t[1] in _CLOSERS:
                    out.append((index[p], p, iters))
            elif t[0] == "loop":
                for it in range(t[1]):
                    run(t[2], p, iters + (it,))
            else:
                run(t[2], p, iters)

    run(forest, (), ())
    return out


def _paths(forest, path):
    for pos, t in enumerate(forest):
        p = path + (pos,)
        yield p, t
        if len(t) == 3:
            yield from _paths(t[2], p)


def brute_visits(body, env):
    """Brute-force interpreter: tag every gate with its flat position, rewrite every loop into
    count copies of its body (textual unrolling), flatten, and read the pair index off every
    measure_all in the unrolled text."""
    j = E.judge(body, env)
    closing = {m: i for i, (_p, m) in enumerate(j["pairs"])}
    pos = [0]

    def tag(s):
        k = s[0]
        if k == "gate":
            pos[0] += 1
            return ("gate", s[1], (pos[0] - 1,))
        if k in ("seq", "par"):
            return (k, tuple(tag(c) for c in s[1]))
        if k == "sub":
            pos[0] += 1
            first = ("gate", E.P_GATE, (pos[0] - 1,))
            inner = tuple(tag(c) for c in s[2])
            pos[0] += 1
            return ("seq", (first,) + inner + (("gate", E.M_GATE, (pos[0] - 1,)),))
        return ("loop", s[1], tag(s[2]))

    def unroll(s):
        k = s[0]
        if k == "gate":
            return (s,)
        if k in ("seq", "par"):
            return tuple(x for c in s[1] for x in unroll(c))
        inner = unroll(s[2])
        return inner * E.count_of(s[1], env)

    seq = tuple(x for s in body for x in unroll(tag(s)))
    return [closing[g[2][0]] for g in seq if g[1] == E.M_GATE]


def skeleton(forest):
    out = []
    for t in forest:
        if t[0] == "L":
            out.append({"PM": "s", "SUB": "S", "P": "P", "M": "M"}[t[1]])
        else:
            out.append({"loop": "[%s" % t[1], "seq": "{", "parseq": "<"}[t[0]] + skeleton(t[2]) + "]")
    return "".join(out)


def _simpler(t):
    if t[0] == "loop" and t[1] >= 2:
        yield ("loop", t[1] - 1, t[2])
    if t[0] == "L" and t[1] == "SUB":
        yield ("L", "PM")


def _outs_as_str(outs, nq):
    # qubit 0 leftmost
    return [format(v, "0%db" % nq)[::-1] for v in outs]


class C08(Check):
    id = "C08"
    nshards = 64
    rule = (
        "every nest of loop c {..} (c in 0..3), top-level {..}, <{..}> over closed subcircuits (inline "
        "prepare_all..measure_all or subcircuit{}) with <= N nodes and <= 6 subcircuits (nests without any subcircuit "
        "only up to 3 nodes), plus the nests over open "
        "prepare_all / measure_all leaves that the C12 model accepts (straddling a loop or block boundary, repeated or "
        "trailing prepare_all), "
        "plus let-valued and overridden counts on the smaller nests; non-trivial = at least one loop and one "
        "subcircuit; distinct by (variant, nest skeleton)"
    )
    assumptions = (
        "a visit is an executed measure_all (the readout is taken there); where a subcircuit is opened inside a "
        "loop and closed outside this differs from counting executed prepare_all - those cases are reported under "
        "their own clause (straddle:visit-sequence) so that the reading can be judged separately",
        "the count of `subcircuit n {}` is not a loop (outside the alphabet)",
        "'overridden lets' = fill_in_let(circuit, override) applied before run_jaqal_circuit (which has no "
        "override parameter)",
        "every subcircuit's distribution is a point mass, so 'sampled outcome has non-zero probability' is decided "
        "without a simulator: the value must be the bit pattern of the subcircuit it is attributed to",
        "the largest size classes use reduced alphabets and the exhaustive output lists are limited to the "
        "smaller nests (see bounds); nothing is claimed beyond them",
        "fuel budget 8000 + 1500 x subcircuits + 150 x visits + 300 x nodes steps (measured: a normal run uses < 1/5 of it)",
    )

    def __init__(self):
        self._shrinker = nestlib.LocalShrinker(self, max_steps=5000)

    # ------------------------------------------------------------ space
    def _plan(self, tier):
        """(family, nodes, grammar, variants, output-list mode)   mode 2 = every list, 1 = two lists"""
        if tier == "quick":
            return [
                ("A", range(0, 4), "A-par", VARIANTS, 2),
                ("B", range(0, 4), "B-rich", VARIANTS, 2),
                ("A", range(4, 5), "A-rich", VARIANTS, 1),
                ("B", range(4, 5), "B-rich", ("lit", "ovr"), 1),
                ("A", range(5, 6), "A-mid", ("lit",), 1),
                ("B", range(5, 6), "B-lean", ("lit",), 1),
                ("A", range(6, 7), "A-core", ("lit",), 0),
            ]
        return [
            ("A", range(0, 4), "A-par", VARIANTS, 2),
            ("B", range(0, 4), "B-rich", VARIANTS, 2),
            ("A", range(4, 5), "A-par", VARIANTS, 2),
            ("B", range(4, 5), "B-rich", VARIANTS, 2),
            ("A", range(5, 6), "A-rich", ("lit",), 1),
            ("A", range(5, 6), "A-lean", ("let", "ovr", "mix"), 1),
            ("B", range(5, 6), "B-mid", ("lit", "ovr"), 1),
            ("A", range(6, 7), "A-mid", ("lit",), 0),
            ("B", range(6, 7), "B-lean", ("lit",), 0),
            ("A", range(7, 8), "A-core", ("lit",), 0),
        ]

    def bounds(self, tier):
        plan = self._plan(tier)
        return {
            "max_nodes": max(r[-1] for _f, r, _g, _v, _o in plan),
            "max_subcircuits": MAX_SUBCIRCUITS,
            "loop_counts": [0, 1, 2, 3],
            "plan": [
                "family %s, nodes %d-%d, alphabet %s (%s), variants %s, output lists %s"
                % (f, r[0], r[-1], g, GRAMMAR_DOC[g], "/".join(v), {2: "all over n=1,2 up to length 4", 1: "one int + one string list (n=2)", 0: "none"}[o])
                for f, r, g, v, o in plan
            ],
        }

    def _raw(self, tier):
        for fam, sizes, gname, variants, outmode in self._plan(tier):
            g = GRAMMARS[gname]
            for n in sizes:
                for f in nestlib.lazy_forests(g, n, TOP):
                    for v in variants:
                        yield fam, v, outmode, f

    @staticmethod
    def _keep(fam, variant, forest):
        nc = n_closers(forest)
        if nc > MAX_SUBCIRCUITS:
            return False
        if nc == 0 and nestlib.count_nodes(forest) > 3:
            return False  # nests without any subcircuit are kept only up to 3 nodes
        nl = n_loops(forest)
        if variant != "lit" and nl == 0:
            return False
        if variant == "mix" and nl < 2:
            return False
        if fam == "B":
            if not any(l[1] in ("P", "M") for l in nestlib.leaves(forest)):
                return False  # closed leaves only: that is family A
            prog, _ov, env = to_prog(forest, "lit", nq=1)
            ok, n = E.accepts(prog[2], env)
            if not ok or n == 0:
                return False
        return True

    def cases(self, tier, shard):
        # the raw stream is strided first and filtered afterwards, so that the model filter of
        # family B runs once per raw item and not once per item and shard
        for idx, (fam, v, outmode, f) in enumerate(self._raw(tier)):
            if idx % self.nshards == shard and self._keep(fam, v, f):
                yield (v, outmode, f)

    def all_cases(self, tier):
        for fam, v, outmode, f in self._raw(tier):
            if self._keep(fam, v, f):
                yield (v, outmode, f)

    def show(self, case):
        variant, _outmode, forest = case
        prog, override, _env = to_prog(forest, variant)
        s = render.oneline(prog)
        if override:
            s += "   [fill_in_let override %s]" % ", ".join("%s=%d" % kv for kv in sorted(override.items()))
        return s

    def shrink(self, case):
        variant, outmode, forest = case
        seen = set()
        if variant != "lit":
            yield ("lit", outmode, forest)
            if variant == "mix":
                yield ("ovr", outmode, forest)
        for cand in nestlib.forest_shrinks(forest, _simpler):
            if cand not in seen and legal(cand):
                seen.add(cand)
                yield (variant, outmode, cand)

    # ------------------------------------------------------------ oracle
    def run_case(self, case, ctx):
        nestlib.run_and_reduce(self, self._shrinker, case, ctx)

    def evaluate(self, case, ctx):
        variant, outmode, forest = case
        if not legal(forest) or variant not in VARIANTS:
            raise ValueError("illegal case %r" % (case,))
        prog, override, env = to_prog(forest, variant)
        body = prog[2]
        j = E.judge(body, env)
        if not j["ok"]:
            ctx.outcome("outside the space (model rejects)")
            return
        nsub = len(j["pairs"])
        if nsub != n_closers(forest):
            raise AssertionError("harness: %d pairs, %d measure-carrying leaves" % (nsub, n_closers(forest)))
        V = E.visits(body, env)
        coherent = E.coherent(body, env)
        nq = register_size(nsub)
        nodes = nestlib.count_nodes(forest)
        budget = 8000 + 1500 * nsub + 150 * len(V) + 300 * nodes
        text = render.text(prog)
        sk = skeleton(forest)

        # coverage counters: the model walker's states (trace index, address of the leaf, iteration vector)
        for st in leaf_walk(forest):
            ctx.state(st)
        ctx.transition(len(V) + n_loops(forest))
        if n_loops(forest) and nsub:
            ctx.nontriv((variant, sk))
        ctx.outcome(
            "%s%s subcircuit(s), %s visits"
            % ("" if coherent else "straddling, ", nsub if nsub < 3 else "3+", "0" if not V else ("1-3" if len(V) <= 3 else ("4-12" if len(V) <= 12 else ">12")))
        )

        # ---- parse (and override)
        try:
            with fuel(budget):
                circuit = impl.parse(text, inject_pulses=gates.native_gates())
        except OutOfFuel:
            ctx.fail("parse-non-termination", "parser out of fuel on a legal program")
            return
        except Exception as e:  # noqa: BLE001
            ctx.fail("legal-program-does-not-parse", "%s: %s" % (type(e).__name__, e))
            return
        suffix = ""
        if override:
            suffix = ":after-let-override"
            try:
                with fuel(budget):
                    circuit = impl.fill_in_let(circuit, dict(override))
            except OutOfFuel:
                ctx.fail("non-termination:fill_in_let", "fill_in_let(circuit, %r) out of fuel" % (override,))
                return
            except Exception as e:  # noqa: BLE001
                ctx.fail("override-rejected", "fill_in_let(circuit, %r) raised %s: %s" % (override, type(e).__name__, e))
                return

        # ---- run
        ctx.trace()
        result = None
        try:
            with fuel(budget):
                result = impl.run_jaqal_circuit(circuit)
                self._touch(result)
        except OutOfFuel:
            ctx.fail("non-termination", "run_jaqal_circuit out of fuel (%d steps); the model visits %r" % (budget, V[:20]))
        except impl.JaqalError as e:
            sfx = suffix if suffix and self._literal_runs(forest, budget) else ""
            ctx.fail("valid-program-rejected" + sfx, "model: %d subcircuit(s), visits %r; run_jaqal_circuit: JaqalError(%s)" % (nsub, V[:20], e))
        except Exception as e:  # noqa: BLE001
            sfx = suffix if suffix and self._literal_runs(forest, budget) else ""
            ctx.fail("crash" + sfx, "run_jaqal_circuit raised %s: %s" % (type(e).__name__, e))
        if result is not None:
            self._judge_result(ctx, result, V, nsub, nq, coherent, emulated=True, what="run_jaqal_circuit")

        # ---- the same nest with textually identical subcircuits (anything the emulator shares between subcircuits
        #      with equal gate sequences shows in the per-subcircuit views)
        if variant == "lit" and nsub >= 2 and result is not None and coherent:
            prog2, _o2, _e2 = to_prog(forest, variant, same=True)
            ctx.trace()
            try:
                with fuel(budget):
                    result2 = impl.run_jaqal_circuit(impl.parse(render.text(prog2), inject_pulses=gates.native_gates()))
                    self._touch(result2)
            except OutOfFuel:
                ctx.fail("identical-subcircuits:non-termination", "run_jaqal_circuit out of fuel on the nest with identical subcircuits")
            except Exception as e:  # noqa: BLE001
                ctx.fail("identical-subcircuits:crash", "%s: %s" % (type(e).__name__, e))
            else:
                self._judge_result(ctx, result2, V, nsub, nq, coherent, emulated=True, what="run_jaqal_circuit (identical subcircuits)",
                                   tag="identical-subcircuits:", same=True)

        # ---- hardware output lists
        if outmode and len(V) <= 4 and variant in ("lit", "let"):
            if result is None and nodes > 4:
                return  # the same walker: one hang per case is enough on the larger nests
            self._output_lists(ctx, forest, variant, V, nsub, coherent, outmode, budget)

    @staticmethod
    def _literal_runs(forest, budget):
        """diagnostic only (names the clause): does the same nest with literal counts run?  If it
        does not, a failure under an override is not about the override."""
        prog, _ov, _env = to_prog(forest, "lit")
        try:
            with fuel(budget):
                impl.run_jaqal_circuit(impl.parse(render.text(prog), inject_pulses=gates.native_gates()))
            return True
        except BaseException:  # noqa: BLE001
            return False

    @staticmethod
    def _touch(result):
        # everything the oracle reads is materialised inside the fuel region
        list(result.readouts)
        for s in result.subcircuits:
            list(s.readouts)

    def _judge_result(self, ctx, result, V, nsub, nq, coherent, emulated, what, outs=None, tag="", same=False):
        """all clauses about one ExecutionResult; outs = the hardware output list (ints) if any;
        same: every subcircuit was written with the gates of subcircuit 0"""
        fails = []
        pattern = (lambda i: _PATTERN(0)) if same else _PATTERN
        readouts = list(result.readouts)
        subs = list(result.subcircuits)
        # numbering in flat order
        if len(subs) != nsub or [s.index for s in subs] != list(range(len(subs))):
            fails.append(("flat-order-numbering", "model: %d subcircuit(s); %s: indices %r" % (nsub, what, [s.index for s in subs])))
        elif emulated:
            for i, s in enumerate(subs):
                if i in V:
                    p = list(s.simulated_probability_by_int)
                    want = pattern(i)
                    if len(p) != 2 ** nq or abs(p[want] - 1) > 1e-9:
                        fails.append((
                            "flat-order-numbering",
                            "subcircuit %d is not the %d-th prepare/measure pair in flat order: its distribution is %r, expected all weight on %d"
                            % (i, i, [round(float(x), 6) for x in p], want),
                        ))
                        break
        try:
            R = [r.subcircuit.index for r in readouts]
        except AttributeError as e:
            fails.append(("readout-without-subcircuit", "%s" % e))
            R = None
        if R is not None:
            if R != V:
                clause = "visit-sequence" if coherent else "straddle:visit-sequence"
                fails.append((clause, "model visits %r; %s attributes its %d readout(s) to %r" % (V[:30], what, len(R), R[:30])))
            if [r.index for r in readouts] != list(range(len(readouts))):
                fails.append(("readout-index", "readouts[j].index = %r" % ([r.index for r in readouts][:30],)))
            vals = [r.as_int for r in readouts]
            if R != V and not coherent:
                pass  # the value clauses presuppose the reading of a visit
            elif outs is not None:
                if R == V and vals != list(outs):
                    fails.append(("output-value", "outputs %r were recorded as %r" % (list(outs), vals)))
            else:
                bad = [(jx, v, R[jx]) for jx, v in enumerate(vals) if not (0 <= R[jx] < nsub) or v != pattern(R[jx])]
                if bad:
                    fails.append((
                        "readout-value",
                        "readout %d has value %d, which has probability 0 in subcircuit %d (its only outcome is %d)"
                        % (bad[0][0], bad[0][1], bad[0][2], pattern(bad[0][2])),
                    ))
            # per-subcircuit views against the result's own readout list
            for i, s in enumerate(subs):
                own = [r for r in readouts if r.subcircuit is s]
                mine = list(s.readouts)
                if len(mine) != len(own) or any(a is not b for a, b in zip(mine, own)):
                    fails.append((
                        "subcircuit-readouts",
                        "subcircuits[%d].readouts has running indices %r, the readouts attributed to it have %r"
                        % (i, [r.index for r in mine], [r.index for r in own]),
                    ))
                    break
                rf = list(s.relative_frequency_by_int)
                want = [0] * len(rf)
                okv = True
                for r in own:
                    if 0 <= r.as_int < len(rf):
                        want[r.as_int] += 1
                    else:
                        okv = False
                if not okv or [float(x) for x in rf] != [float(x) for x in want]:
                    fails.append((
                        "relative-frequency",
                        "subcircuits[%d].relative_frequency_by_int = %r, its readouts count %r" % (i, [float(x) for x in rf], want),
                    ))
                    break
        for clause, detail in fails:
            if tag and not coherent:
                ctx.fail("straddle:output-list", "%s: %s" % (clause, detail))
                break
            ctx.fail(tag + clause, detail)
        return not fails

    def _output_lists(self, ctx, forest, variant, V, nsub, coherent, outmode, budget):
        L = len(V)
        for nq in ((1, 2) if outmode == 2 else (2,)):
            prog, _ov, _env = to_prog(forest, variant, nq=nq)
            has_sub = any(l[1] == "SUB" for l in nestlib.leaves(forest))
            try:
                with fuel(budget):
                    circuit = impl.parse(render.text(prog), inject_pulses=gates.native_gates())
            except BaseException as e:  # noqa: BLE001
                ctx.fail("legal-program-does-not-parse", "%s: %s" % (type(e).__name__, e))
                return
            if outmode == 2:
                lists = itertools.product(range(2 ** nq), repeat=L)
            else:
                lists = [tuple((jx + 1) % (2 ** nq) for jx in range(L))]
            for outs in lists:
                for form in ("int", "str"):
                    given = list(outs) if form == "int" else _outs_as_str(outs, nq)
                    ctx.trace()
                    try:
                        with fuel(budget):
                            res = impl.parse_jaqal_output_list(circuit, given)
                            self._touch(res)
                    except OutOfFuel:
                        ctx.fail("output-list:non-termination", "parse_jaqal_output_list(c, %r) out of fuel" % (given,))
                        return
                    except impl.JaqalError as e:
                        ctx.fail(
                            "straddle:output-list" if not coherent else
                            "output-list:valid-program-rejected" + (":subcircuit-block" if has_sub else ""),
                            "parse_jaqal_output_list(c, %r): JaqalError(%s)" % (given, e),
                        )
                        return
                    except Exception as e:  # noqa: BLE001
                        ctx.fail("output-list:crash" if coherent else "straddle:output-list", "parse_jaqal_output_list(c, %r) raised %s: %s" % (given, type(e).__name__, e))
                        return
                    if not self._judge_result(
                        ctx, res, V, nsub, nq, coherent, emulated=False,
                        what="parse_jaqal_output_list(c, %r)" % (given,), outs=outs, tag="output-list:",
                    ):
                        return

    # ------------------------------------------------------------ model self-consistency
    def selfcheck(self):
        n = 0
        nonempty = 0
        for gname, top_n, stride in (("A-par", 4, 5), ("B-rich", 4, 9)):
            g = GRAMMARS[gname]
            for size in range(0, top_n + 1):
                for idx, f in enumerate(nestlib.lazy_forests(g, size, TOP)):
                    if size == top_n and idx % stride:
                        continue
                    for variant in ("lit", "ovr"):
                        prog, override, env = to_prog(f, variant)
                        body = prog[2]
                        a = E.accepts(body, env)
                        if a != E.accepts2(body, env):
                            raise AssertionError("accepts/accepts2 disagree on %s" % render.oneline(prog))
                        if not a[0]:
                            continue
                        v = E.visits(body, env)
                        b = brute_visits(body, env)
                        lw = [i for i, _p, _it in leaf_walk(f)]
                        if not (v == b == lw):
                            raise AssertionError("visits %r, brute force %r, leaf walk %r on %s" % (v, b, lw, render.oneline(prog)))
                        if gname == "A-par" and not E.coherent(body, env):
                            raise AssertionError("closed nest judged incoherent: %s" % render.oneline(prog))
                        n += 1
                        nonempty += bool(v)
        if n < 300 or nonempty < 100:
            raise AssertionError("selfcheck too thin: %d nests, %d with visits" % (n, nonempty))
        # anchors from the statement
        def body_of(f, variant="lit"):
            p, _o, env = to_prog(f, variant)
            return p[2], env
        pm, sub = ("L", "PM"), ("L", "SUB")
        anchors = [
            ((("loop", 0, (pm,)),), []),
            ((("loop", 2, (pm, ("loop", 3, (sub,)))), pm), [0, 1, 1, 1, 0, 1, 1, 1, 2]),
            ((pm, ("loop", 0, (sub,)), pm), [0, 2]),
            ((("loop", 2, (("L", "P"),)), ("L", "M")), [0]),
            ((("L", "P"), ("loop", 0, (("L", "M"),))), []),
        ]
        for f, want in anchors:
            for variant in VARIANTS:
                body, env = body_of(f, variant)
                if E.visits(body, env) != want:
                    raise AssertionError("anchor %r (%s): %r, expected %r" % (f, variant, E.visits(body, env), want))


CHECK = C08()

if __name__ == "__main__":
    import sys
    import time

    tier = sys.argv[1] if len(sys.argv) > 1 else "quick"
    t = time.time()
    from collections import Counter

    cnt = Counter()
    raw = 0
    for fam, v, o, f in CHECK._raw(tier):
        raw += 1
        if CHECK._keep(fam, v, f):
            cnt[(fam, nestlib.count_nodes(f), v)] += 1
    print("raw", raw, "kept", sum(cnt.values()), round(time.time() - t, 1))
    for k in sorted(cnt):
        print(k, cnt[k])
