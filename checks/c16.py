"""C16 - failures are JaqalErrors with a position; no crashes, hangs or sticky state.

Space 1 : every character string over a small alphabet up to a length bound, alone and appended
          to seed prefixes (tree/product exhaustive), plus every single-character insertion,
          deletion and replacement in a set of seed programs; each text goes through the parsing
          and execution entry points under a deterministic step budget.
Oracle 1: the call returns or raises JaqalError; a JaqalParseError carries `line`/`column` that
          lie inside the text (or an end-of-input marker); a failure of the syntax phase is a
          JaqalParseError; ImportError only when the text names a pulse module that does not
          exist; nothing else escapes, the budget is never exhausted.
Space 2 : call histories in one interpreter over an alphabet of calls (checks/c16_driver.py):
          every history of length <= 2 in a fresh interpreter each, and every history of length
          <= 3 (4) replayed back to back in one long-lived interpreter per first call.
Oracle 2: every call's outcome equals its outcome alone in a fresh interpreter (the baseline).
"""
import importlib.util  # noqa: F401  (see `assumptions`: Space 1 runs with importlib.util loaded)
import itertools
import json
import os
import re
import subprocess
import sys

from mc import gates, impl
from mc.framework import Check, NPROC
from mc.fuel import OutOfFuel, fuel

from checks import c16_driver as drv

FIX = drv.FIX
if FIX not in sys.path:
    sys.path.append(FIX)  # `from vpulses usepulses *` (absolute)

# ------------------------------------------------------------------------------ space 1: alphabets
A18 = "aq01.[]{}<>|;:/* \n"
A23 = A18 + "$'-\t\r"
ALPHABETS = (A18, A23)
assert len(A18) == 18 and len(A23) == 23

REG = "register q[2]\n"
CONTEXTS = (
    "",
    REG,
    REG + "g q[",
    REG + "{ ",
    REG + "< ",
    REG + "macro m a { ",
    "/* ",
    "from vpulses usepulses *\n" + REG,  # autoload entry points see loaded pulses (gates a, g)
)

SEEDS = (
    "register q[2]\ng q[0]\n",
    "let n 2\nregister q[n]\nloop n { g q[0] }\n",
    "register q[3]\nmap a q[0:3:2]\ng a[1]\n",
    "register q[2]\nmap b q[1]\ng b\n",
    "register q[2]\nmap c q\ng c[0] 1.5 -2\n",
    "let x 0.5\nlet k -1\nregister q[1]\nRz q[0] x\n",
    "register q[2]\nmacro m a b { g a; h b }\nm q[0] q[1]\n",
    "register q[2]\n< g q[0] | h q[1] >\n",
    "register q[2]\n{ g q[0]; < g q[1] | h q[0] > }\n",
    "register q[2]\nloop 2 { < g q[0] | { h q[1]; g q[1] } > }\n",
    "register q[2]\nsubcircuit { X q[0] }\n",
    "register q[2]\nsubcircuit 3 { H q[0]; CX q[0] q[1] }\n",
    "register q[2]\nprepare_all\nX q[0]\nmeasure_all\n",
    "register q[2]\nloop 2 { prepare_all; H q[1]; measure_all }\n",
    "// c\nregister q[2] // d\n/* e\n f */ g q[0]\n",
    "register q[1]\ng q[0] 1e3 .5 +1 a.b\n",
    "register q[2]; g q[0]; {g q[1]}\n",
    "let n 1\nregister q[2]\nmap a q[n]\nmacro m b { g b }\nloop 1 { m a }\n",
    "from vpulses usepulses *\nregister q[2]\nprepare_all\na q[0]\nmeasure_all\n",
    "from .vpulses usepulses *\nregister q[2]\nsubcircuit { g q[1] }\n",
    "from vpulses usepulses *\nlet n 2\nregister q[n]\nmacro m b { a b }\nloop n { subcircuit { m q[0] } }\n",
    # no register at all
    "prepare_all\nmeasure_all\n",
    # one replacement away from using a float / a negative constant / a register where an integer belongs
    "let a 1.5\nlet n 1\nregister q[n]\nloop n { prepare_all; Rz q[0] a; measure_all }\nsubcircuit n { X q[0] }\n",
    "let a -1\nregister q[2]\nmap b q[1]\nloop 1 { prepare_all; X q[1]; measure_all }\n",
    "register q[2]\nmacro m a b { loop a { X b } }\nprepare_all\nm 1 q[0]\nmeasure_all\n",
    # one replacement away from aliasing a let (whole / open-ended slice) and indexing the alias
    "let a 2\nregister q[2]\nmap b q\ng b[0]\n",
    "let a 1\nregister q[3]\nmap b q[1:]\ng b[0] a\n",
)

# long-run family: lexer patterns whose alternatives overlap backtrack exponentially on a long run of layout
# characters in front of a place where the pattern finally fails (an unterminated comment, an illegal character).
# Such a hang sits inside the regular-expression engine, out of reach of the step meter, so these texts are parsed in
# a child process under a wall-clock limit that is >= 100 x the normal time (the only use of wall-clock time here).
LONG_RUNS = (" " * 64, "\t" * 64, " \t" * 40, " " * 300, "\n" * 64, " \n" * 40, "*" * 64, "/" * 64, "* " * 40, "a " * 40, "0" * 64, "." * 64)
LONG_FRAMES = (
    ("unterminated-block", REG + "/*{R}"),
    ("unterminated-block-then-text", REG + "/* c{R}g q[0]\n"),
    ("terminated-block", REG + "/*{R}*/ g q[0]\n"),
    ("line-comment", REG + "//{R}\ng q[0]\n"),
    ("before-illegal", REG + "g q[0]{R}$\n"),
    ("before-eof-in-block", REG + "{{ g q[0]{R}"),
    ("slash-star-slash", REG + "/*{R}/"),
)
LONG_LIMIT = 60.0
_LONG_CHILD = (
    "import sys, json; sys.path.insert(0, sys.argv[1]);\n"
    "from jaqalpaq.parser import parse_jaqal_string\n"
    "from jaqalpaq.error import JaqalError\n"
    "text = sys.stdin.read()\n"
    "try:\n"
    "    parse_jaqal_string(text, autoload_pulses=False); out = {'ok': True}\n"
    "except JaqalError as e:\n"
    "    out = {'exc': 'JaqalError', 'type': type(e).__name__}\n"
    "except BaseException as e:\n"
    "    out = {'exc': type(e).__name__, 'msg': str(e)[:200]}\n"
    "print(json.dumps(out))\n"
)


def long_text(frame, run):
    return dict(LONG_FRAMES)[frame].replace("{R}", LONG_RUNS[run])


# module-name family: `from <name> usepulses *` for every name over these characters that is one token
MODCHARS = ".av1_"
FIXTURE_NAMES = ("vpulses", ".vpulses", "nopulses", ".nopulses", "vpulses.x", ".vpulses.x")
_IDENT = re.compile(r"[a-zA-Z_](\.?[a-zA-Z0-9_])*\Z")  # the lexer's IDENTIFIER
_DOTIDENT = re.compile(r"\.([a-zA-Z_](\.?[a-zA-Z0-9_])*)?\Z")  # the lexer's DOTIDENTIFIER (may be a lone dot)


def module_names(maxlen):
    """every string over MODCHARS up to maxlen that lexes as one (DOT)IDENTIFIER, then the fixture names"""
    for k in range(1, maxlen + 1):
        for p in itertools.product(MODCHARS, repeat=k):
            name = "".join(p)
            if _IDENT.match(name) or _DOTIDENT.match(name):
                yield name
    yield from FIXTURE_NAMES


# numeric-literal family: every literal in every position
_BIG = (10 ** 5000 - 1) // 9  # 5000 digits, all 1 (int() of such a string is refused by Python itself)
NUM_LITERALS = (
    "1.0e999", "-2.5e400", "0.1e+310", "1.0e308", "1.0e-400", "4.9e-324", "0.0", "-0.0",
    "1e5",  # no point: an INT followed by an IDENTIFIER
    "007", "+1", "-1", str(2 ** 63), str(2 ** 64), str(10 ** 30), "1" * 5000,
)
_PM = "prepare_all\n%s\nmeasure_all\n"
_LOOPBODY = "{ prepare_all; X q[0]; measure_all }\n"
NUM_TEMPLATES = (
    ("let-angle", "let a {L}\nregister q[2]\n" + _PM % "Rz q[0] a"),
    ("let-index", "let a {L}\nregister q[2]\n" + _PM % "X q[a]"),
    ("let-count", "let a {L}\nregister q[2]\nloop a " + _LOOPBODY),
    ("let-subcount", "let a {L}\nregister q[2]\nsubcircuit a { X q[0] }\n"),
    ("let-size", "let a {L}\nregister q[a]\n" + _PM % "X q[0]"),
    ("let-map-index", "let a {L}\nregister q[2]\nmap b q[a]\n" + _PM % "X b"),
    ("let-slice-stop", "let a {L}\nregister q[2]\nmap b q[0:a:1]\n" + _PM % "X b[0]"),
    ("let-slice-step", "let a {L}\nregister q[2]\nmap b q[0:2:a]\n" + _PM % "X b[0]"),
    ("gate-angle", "register q[2]\n" + _PM % "Rz q[0] {L}"),
    ("gate-untyped", "register q[2]\nh q[0] {L}\n"),
    ("macro-index", "register q[2]\nmacro m a { X q[a] }\n" + _PM % "m {L}"),
    ("macro-count", "register q[2]\nmacro m a { loop a " + _LOOPBODY.rstrip("\n") + " }\nm {L}\n"),
    ("macro-angle", "register q[2]\nmacro m a { Rz q[0] a }\n" + _PM % "m {L}"),
    ("loop-count", "register q[2]\nloop {L} " + _LOOPBODY),
    ("sub-count", "register q[2]\nsubcircuit {L} { X q[0] }\n"),
    ("reg-size", "register q[{L}]\n" + _PM % "X q[0]"),
    ("qubit-index", "register q[2]\n" + _PM % "X q[{L}]"),
    ("map-index", "register q[2]\nmap b q[{L}]\n" + _PM % "X b"),
    ("slice-start", "register q[2]\nmap b q[{L}:2:1]\n" + _PM % "X b[0]"),
    ("slice-stop", "register q[2]\nmap b q[0:{L}:1]\n" + _PM % "X b[0]"),
    ("slice-step", "register q[2]\nmap b q[0:2:{L}]\n" + _PM % "X b[0]"),
)
# override_dict values for the let `a` (what a literal can and cannot express)
OVR_VALUES = (
    ("inf", float("inf")), ("-inf", float("-inf")), ("nan", float("nan")),
    ("2**70", 2 ** 70), ("2**63", 2 ** 63), ("2**64", 2 ** 64), ("10**30", 10 ** 30), ("5000 digits", _BIG),
    ("1.0e308", 1.0e308), ("4.9e-324", 4.9e-324), ("0.0", 0.0), ("-0.0", -0.0), ("100000.0", 1e5),
    ("1.5", 1.5), ("7", 7), ("1", 1), ("0", 0), ("-1", -1),
)
OVR_TEMPLATES = (
    ("ovr-index", "let a 1\nregister q[2]\n" + _PM % "X q[a]"),
    ("ovr-angle", "let a 0.5\nregister q[2]\n" + _PM % "Rz q[0] a"),
    ("ovr-count", "let a 1\nregister q[2]\nloop a " + _LOOPBODY),
    ("ovr-size", "let a 2\nregister q[a]\n" + _PM % "X q[0]"),
    ("ovr-slice-stop", "let a 2\nregister q[2]\nmap b q[0:a:1]\n" + _PM % "X b[0]"),
)


def run_override(tname, vkey, ctx):
    """parse with override_dict={a: value} and expand_let, then emulate -> list of (ep, clause, detail)"""
    text = dict(OVR_TEMPLATES)[tname]
    value = dict(OVR_VALUES)[vkey]
    out = []

    def parse(inject):
        return impl.parse_jaqal_string(
            text, override_dict={"a": value}, expand_let=True, autoload_pulses=False,
            inject_pulses=_injected() if inject else None,
        )

    for ep, inject in (("ovr-parse", False), ("ovr-run", True)):
        label, key, c, fails = observe(ep, text, call=lambda inject=inject: parse(inject))
        ctx.trace()
        ctx.outcome("%s:%s" % (ep, label))
        ctx.state((tname, vkey, ep, key if c is None else "OK"))
        out += [(ep, cl, d) for cl, d in fails]
        if ep == "ovr-run" and c is not None and _emulable(c):
            label, key, res, fails = observe(ep, text, call=lambda c=c: impl.run_jaqal_circuit(c))
            ctx.trace()
            ctx.outcome("ovr-emulate:%s" % label)
            ctx.state((tname, vkey, "ovr-emulate", key if res is None else "RAN"))
            out += [("ovr-emulate", cl, d) for cl, d in fails]
    return text, out


EPS = ("parse", "header", "auto", "run", "runstr")
BUDGET = 300000  # a normal call uses < 2000 steps
MAXQ = 5  # emulation is only asked of circuits with at most this many qubits (cost 2^n per gate)
MAXWORK = 2000  # ... and whose integer loop counts multiply to at most this many statement executions

_EXISTING = ("vpulses", ".vpulses")
_USE = re.compile(r"from\s+(\S+)\s+usepulses")


def _injected():
    """gates.native_gates() plus the two short-named fixture gates, a fresh table every call"""
    t = gates.native_gates()
    t["a"] = impl.GateDefinition("a", [gates.P("q", gates.Q)], ideal_unitary=gates.u_X)
    t["g"] = impl.GateDefinition("g", [gates.P("q", gates.Q)], ideal_unitary=gates.u_H)
    return t


def _nqubits(c):
    try:
        n = 0
        for r in c.registers.values():
            if getattr(r, "fundamental", False):
                s = r.size
                s = getattr(s, "value", s)
                n = max(n, int(s))
        return n
    except Exception:  # noqa: BLE001 - unreadable size: do not emulate
        return 1 << 30


def _is_int(v):
    return isinstance(v, int) and not isinstance(v, bool)


def _loop_work(c):
    """number of statement executions the loops of the circuit ask for (public IR attributes only;
    integer loop counts multiply, macro calls are followed with their arguments bound; anything that
    is not a positive integer counts as 1, because rejecting it is the implementation's job)"""

    def val(x, env):
        if isinstance(x, impl.Constant):
            return x.value
        if isinstance(x, impl.Parameter):
            return env.get(x.name)
        return x

    def walk(stmt, env, depth):
        if depth > 24:
            return 1
        if isinstance(stmt, impl.LoopStatement):
            n = val(stmt.iterations, env)
            if isinstance(n, float) and n == n and abs(n) != float("inf") and n.is_integer():
                n = int(n)  # an integral float may be taken as a count
            n = n if _is_int(n) and n > 0 else 1
            return n * walk(stmt.statements, env, depth + 1)
        if isinstance(stmt, impl.BlockStatement):
            return max(1, sum(walk(x, env, depth + 1) for x in stmt.statements))
        if isinstance(stmt, impl.GateStatement) and isinstance(stmt.gate_def, impl.Macro):
            env2 = {name: val(v, env) for name, v in stmt.parameters.items()}
            return walk(stmt.gate_def.body, env2, depth + 1)
        return 1

    try:
        return sum(walk(x, {}, 0) for x in c.body.statements)
    except Exception:  # noqa: BLE001 - unreadable: do not emulate
        return 1 << 62


def _emulable(c):
    return _nqubits(c) <= MAXQ and _loop_work(c) <= MAXWORK


def _names_missing_module(text):
    return any(m not in _EXISTING for m in _USE.findall(text))


def _invoke(ep, text):
    if ep == "parse":
        return impl.parse_jaqal_string(text, autoload_pulses=False)
    if ep == "header":
        return impl.parse_jaqal_string_header(text)
    if ep == "auto":
        return impl.parse_jaqal_string(text, autoload_pulses=True, import_path=FIX)
    if ep == "run":
        c = impl.parse_jaqal_string(text, inject_pulses=_injected(), autoload_pulses=False)
        return impl.run_jaqal_circuit(c)
    if ep == "runstr":
        return impl.run_jaqal_string(text, import_path=FIX)
    raise ValueError(ep)


def _syntax_phase_fails(text):
    try:
        with fuel(BUDGET):
            impl.parse_to_sexpression(text)
        return False
    except (Exception, OutOfFuel):  # noqa: BLE001
        return True


def _position_fault(e, text):
    """None, or (clause, detail) when a JaqalParseError does not carry a usable position"""
    if not (hasattr(e, "line") and hasattr(e, "column")):
        return "position-missing", "JaqalParseError without line/column attributes: %s" % (e,)
    line, col = e.line, e.column
    if not _is_int(line):
        if line is None or isinstance(line, str):
            return None  # explicit end-of-input marker
        return "position-missing", "JaqalParseError.line is %r" % (line,)
    lines = text.split("\n")
    if not 1 <= line <= len(lines) + 1:
        return "position-outside-text", "line %r but the text has %d line(s): %s" % (line, len(lines), e)
    if _is_int(col):
        width = len(lines[line - 1]) if line <= len(lines) else 0
        if not 1 <= col <= width + 1:
            return "position-outside-text", "column %r but line %d has %d character(s): %s" % (col, line, width, e)
    elif not (col is None or isinstance(col, str)):
        return "position-missing", "JaqalParseError.column is %r" % (col,)
    return None


_HARNESS_GATE_FILES = (os.path.join("mc", "gates.py"), os.path.join("vpulses", "jaqal_gates.py"))


def _raised_in_harness_gate(e):
    tb = e.__traceback__
    if tb is None:
        return False
    while tb.tb_next is not None:
        tb = tb.tb_next
    return tb.tb_frame.f_code.co_filename.endswith(_HARNESS_GATE_FILES)


def observe(ep, text, call=None):
    """-> (label, state key, result or None, [(clause, detail)]); `call` replaces the standard invocation"""
    fails = []
    try:
        return _observe(ep, text, fails, call)
    finally:
        if "" in sys.modules:
            # removed again so that the verdict on the next text does not depend on this one
            del sys.modules[""]
            fails.append(("sys-modules-empty-key", "%s left an entry with the empty string as key in sys.modules" % ep))


def _observe(ep, text, fails, call=None):
    try:
        with fuel(BUDGET):
            res = call() if call is not None else _invoke(ep, text)
    except impl.JaqalParseError as e:
        pf = _position_fault(e, text)
        if pf:
            fails.append(pf)
        return "JaqalParseError", ("JPE", e.line if hasattr(e, "line") else "?", e.column if hasattr(e, "column") else "?"), None, fails
    except impl.JaqalError as e:
        if ep in ("parse", "header", "auto") and _syntax_phase_fails(text):
            fails.append(("syntax-error-not-JaqalParseError", "the syntax phase fails on this text but %s raised plain %s: %s" % (ep, type(e).__name__, e)))
        return "JaqalError", ("JE", type(e).__name__), None, fails
    except ImportError as e:
        if not (ep in ("auto", "runstr") and _names_missing_module(text)):
            fails.append(("escape-ImportError", "%s: %s although no missing pulse module is named" % (type(e).__name__, e)))
        return "ImportError", ("IE",), None, fails
    except OutOfFuel:
        fails.append(("non-termination", "%s did not finish within %d steps (a normal call uses < 2000)" % (ep, BUDGET)))
        return "non-termination", ("HANG",), None, fails
    except KeyboardInterrupt:
        raise
    except BaseException as e:  # noqa: BLE001 - the oracle is about what escapes
        if _raised_in_harness_gate(e):
            # e.g. OverflowError from exp(1j * <5000-digit int>) inside mc.gates.u_Rz: the harness's own
            # unitary function failed on the value it was handed; the library only passed it on
            return "error-inside-harness-unitary", ("CB", type(e).__name__), None, fails
        name = type(e).__name__
        fails.append(("escape-%s" % name, "%s escaped from %s: %s" % (name, ep, str(e)[:300])))
        return "escape-%s" % name, ("ESC", name), None, fails
    return "returned", None, res, fails


def pipeline(text, only=None):
    """Run the entry points that apply to `text`; yield (ep, label, state key, failures).
    `only` restricts the *reported* entry point (guards it depends on still run)."""

    def want(ep):
        return only is None or only == ep

    parsed = auto = None
    need_parse = only in (None, "parse", "run", "runstr")
    if need_parse:
        label, key, parsed, fails = observe("parse", text)
        if parsed is not None:
            try:
                key = ("OK", impl.generate_jaqal_program(parsed))
            except Exception:  # noqa: BLE001 - text generation is C01's business
                key = ("OK", "<not generable>")
        if want("parse"):
            yield "parse", label, key, fails
    if want("header"):
        label, key, res, fails = observe("header", text)
        if res is not None:
            try:
                key = ("OK", impl.generate_jaqal_program(res))
            except Exception:  # noqa: BLE001
                key = ("OK", "<not generable>")
        yield "header", label, key, fails
    uses = "usepulses" in text
    if uses and only in (None, "auto"):
        label, key, auto, fails = observe("auto", text)
        if auto is not None:
            key = ("OK", len(auto.native_gates))
        if want("auto"):
            yield "auto", label, key, fails
    if parsed is not None and _emulable(parsed):
        if want("run"):
            label, key, res, fails = observe("run", text)
            if res is not None:
                key = ("RAN", len(res.subcircuits))
            yield "run", label, key, fails
        if want("runstr"):
            label, key, res, fails = observe("runstr", text)
            if res is not None:
                key = ("RAN", len(res.subcircuits))
            yield "runstr", label, key, fails


def _has_failure(ep, clause, text):
    for e, _l, _k, fails in pipeline(text, only=ep):
        if e == ep and any(c == clause for c, _d in fails):
            return True
    return False


_MIN = {}


def minimise(ep, clause, text):
    """delete statements, then chunks of characters, then respell (letters -> a, digits -> 1) while
    (ep, clause) still fails, to a fixpoint; deterministic, memoised"""
    k0 = (ep, clause, text)
    if k0 in _MIN:
        return _MIN[k0]

    def bad(t):
        return _has_failure(ep, clause, t)

    cur = text
    while True:
        before = cur
        # whole statements (pieces ending at a newline or a semicolon)
        again = True
        while again:
            again = False
            pieces = _pieces(cur)
            for i in range(len(pieces)):
                cand = "".join(pieces[:i] + pieces[i + 1:])
                if bad(cand):
                    cur = cand
                    again = True
                    break
        # chunks of characters, halving down to single characters
        chunk = max(1, len(cur) // 2)
        while True:
            i = 0
            shrunk = False
            while i < len(cur):
                cand = cur[:i] + cur[i + chunk:]
                if cand != cur and bad(cand):
                    cur = cand
                    shrunk = True
                else:
                    i += chunk
            if chunk == 1:
                if not shrunk:
                    break
            else:
                chunk = max(1, chunk // 2)
        # canonical spelling (fewer distinct minima per defect)
        for i, ch in enumerate(cur):
            sub = _canon_char(ch)
            if sub != ch:
                cand = cur[:i] + sub + cur[i + 1:]
                if bad(cand):
                    cur = cand
        if cur == before:
            break
    _MIN[k0] = cur
    return cur


_PIECE = re.compile(r"[^\n;]*[\n;]|[^\n;]+$")


def _pieces(text):
    return _PIECE.findall(text)


def _canon_char(ch):
    if ch.isalpha() and ch.isascii():
        return "a"
    if ch.isdigit():
        return "1"
    return ch


_DIGITS = re.compile(r"\d+")


def judge_texts(texts, ctx, ctxkey):
    """run the pipeline on every text of a bundle; report each failure family once (minimised)"""
    seen = set()
    n = 0
    for text in texts:
        n += 1
        for ep, label, key, fails in pipeline(text):
            ctx.trace()
            ctx.outcome("%s:%s" % (ep, label))
            ctx.state((ctxkey, ep, key))
            if label == "returned" and ep == "parse":
                ctx.nontriv(("accepted", text))
            elif label == "JaqalError" and ep == "parse":
                ctx.nontriv(("semantic", text))
            for clause, detail in fails:
                fam = (ep, clause, _DIGITS.sub("#", detail)[:60])
                if fam in seen:
                    ctx.count("suppressed_repeats_of_reported_failure_families")
                    continue
                seen.add(fam)
                small = minimise(ep, clause, text)
                if small != text:
                    for e2, _l, _k, f2 in pipeline(small, only=ep):
                        for c2, d2 in f2:
                            if e2 == ep and c2 == clause:
                                detail = d2
                ctx.fail(clause, "[%s] %r: %s" % (ep, small, detail), case=("text", ep, small))
    ctx.transition(n)
    ctx.count("texts", n)


# ------------------------------------------------------------------------------ space 2: histories
_BASE = {}


def _spawn(args):
    # one BLAS thread: importing numpy with a thread pool costs ~1.5 CPU-s per fresh interpreter
    env = dict(os.environ, PYTHONHASHSEED="0", OMP_NUM_THREADS="1", OPENBLAS_NUM_THREADS="1", MKL_NUM_THREADS="1")
    return subprocess.Popen(
        [sys.executable, os.path.join(drv.HERE, "c16_driver.py")] + list(args),
        stdin=subprocess.PIPE, stdout=subprocess.PIPE, stderr=subprocess.PIPE, env=env, cwd=drv.VERIF, text=True,
    )


def _collect(proc, stdin_text=None):
    try:
        out, err = proc.communicate(stdin_text, timeout=900)
    except subprocess.TimeoutExpired:
        proc.kill()
        raise RuntimeError("C16 driver exceeded the wall-clock backstop")
    mark = out.rfind("@@C16@@")
    if proc.returncode != 0 or mark < 0:
        raise RuntimeError("C16 driver failed (exit %r): %s" % (proc.returncode, (err or out)[-1500:]))
    return json.loads(out[mark + 7:])


def run_history(hist):
    """outcomes of the calls of `hist`, executed in order in one fresh interpreter"""
    return _collect(_spawn(["-"]), json.dumps(list(hist)))


def run_multi(histories):
    return _collect(_spawn(["--multi", "-"]), json.dumps([list(h) for h in histories]))


def baseline(call):
    if call not in _BASE:
        _BASE[call] = run_history((call,))[0]
    return _BASE[call]


def precompute_baselines(calls):
    """one fresh interpreter per call, a few at a time (the one-call histories of the space run each
    call a second time, so a baseline that is not reproducible shows up as a failure there)"""
    todo = [c for c in calls if c not in _BASE]
    width = max(1, min(NPROC, 8))
    for i in range(0, len(todo), width):
        procs = []
        for c in todo[i:i + width]:
            p = _spawn(["-"])
            p.stdin.write(json.dumps([c]))
            p.stdin.close()
            p.stdin = None
            procs.append((c, p))
        for c, p in procs:
            _BASE[c] = _collect(p)[0]


def _sans_leak(o):
    return {k: v for k, v in o.items() if k != "leak"}


def _digest(o):
    return json.dumps(_sans_leak(o), sort_keys=True)


def _short(o):
    if "ok" in o:
        return "returns %r" % (o["ok"][:160],)
    pos = ""
    if "line" in o or "column" in o:
        pos = " at %r:%r" % (o.get("line"), o.get("column"))
    return "raises %s%s: %s" % (o["exc"], pos, o["msg"][:200])


def outcome_type_fault(call, o):
    """oracle 1 on a driver outcome -> clause or None"""
    if "ok" in o:
        return None
    names = [o["exc"]] + list(o.get("mro", ()))
    if "JaqalError" in names:
        return None
    if "ImportError" in names:
        ep, text = drv.CALLS[call]
        if ep in ("auto", "autoinj", "runstr") and _names_missing_module(text):
            return None
        return "escape-ImportError"
    if o["exc"] == "OutOfFuel":
        return "non-termination"
    return "escape-%s" % o["exc"]


def tree_histories(root, depth, alphabet):
    """all histories of length <= depth that start with `root`, shortest first"""
    out = [(root,)]
    for k in range(1, depth):
        for rest in itertools.product(alphabet, repeat=k):
            out.append((root,) + rest)
    return out


def _deviates(seq, call, observed_digest=None):
    """does some occurrence of `call` in the fresh history `seq` deviate from its baseline?"""
    outs = run_history(seq)
    for c, o in zip(seq, outs):
        if c == call and _sans_leak(o) != _sans_leak(baseline(c)):
            return True
    return False


def reduce_sequence(seq, call):
    """a short fresh history in which `call` still deviates from its baseline (bounded effort)"""
    distinct = []
    for c in seq:
        if c not in distinct:
            distinct.append(c)
    for c in distinct:  # one earlier call is the usual cause
        if _deviates((c, call), call):
            return (c, call)
    cand = tuple(c for c in distinct if c != call) + (call,)
    if len(cand) < len(seq) and _deviates(cand, call):
        seq = cand
    # bounded chunk deletion
    cur = tuple(seq)
    chunk = max(1, len(cur) // 2)
    runs = 0
    while runs < 40:
        i = 0
        shrunk = False
        while i < len(cur) and runs < 40:
            c2 = cur[:i] + cur[i + chunk:]
            runs += 1
            if c2 and call in c2 and _deviates(c2, call):
                cur = c2
                shrunk = True
            else:
                i += chunk
        if chunk == 1:
            if not shrunk:
                break
        else:
            chunk = max(1, chunk // 2)
    return cur


# ------------------------------------------------------------------------------ the check
class C16(Check):
    id = "C16"
    nshards = 127  # prime: contexts, alphabet and call indices all spread over the shards
    rule = (
        "space 1: every string over the character alphabet up to the length bound, alone and after each seed "
        "prefix, plus every single-character insertion/deletion/replacement in the seed programs, plus "
        "`from <name> usepulses *` (alone and before a register) for every one-token module name over . a v 1 _ up "
        "to the name length bound and the fixture names, plus every boundary numeric literal in every numeric "
        "position (and every boundary value as override_dict entry of a let used as index, angle, count, size, "
        "slice bound), each through "
        "parse / header parse / autoload parse / emulation; non-trivial = the text gets past the syntax phase "
        "(accepted, or rejected by the builder with a non-syntax JaqalError), distinct by text. "
        "space 2: every call history up to the depth bound over the call alphabet; states = distinct "
        "(route, history prefix, outcomes) observations, transitions = calls executed"
    )
    assumptions = (
        "long-run family (7 frames x 12 runs of 64-300 layout or punctuation characters): a hang inside the regular-expression "
        "engine cannot be seen by the step meter, so each of these texts is parsed in a child process under a 60 s wall-clock limit "
        "(normal time < 1 s); this is the only place where wall-clock time decides a verdict",
        "weak reading of 'position of the offending token': JaqalParseError has line and column; when they are "
        "integers the line is in 1..lines+1 and the column in 1..len(line)+1; a non-integer line (None or a "
        "string such as 'EOF') is accepted as an end-of-input marker; exactness of positions is C02's business",
        "a failure is known to be a syntax error only when parse_to_sexpression fails on the text; then "
        "JaqalParseError is required, otherwise any JaqalError is accepted",
        "ImportError is accepted from autoload entry points when a `from X usepulses` names X other than "
        "vpulses/.vpulses (the fixture package)",
        "space 1 runs in a worker where importlib.util is already loaded, so that verdicts on texts do not depend "
        "on the worker's history; the dependence of relative usepulses on that import is judged in space 2, "
        "where every history starts in a fresh interpreter that imports nothing but jaqalpaq",
        "emulation is only asked of circuits with <= %d qubits (its cost is 2^n steps per gate) whose integer "
        "loop counts multiply to <= %d statement executions (a loop of 2**63 iterations is not a hang); "
        "non-termination is a semi-decision: %d steps of fuel" % (MAXQ, MAXWORK, BUDGET),
        "outcomes of calls are compared as canonical result text or exception type, message and position, "
        "with memory addresses masked and numpy.random seeded before each call",
        "an exception raised inside a gate unitary function supplied by the harness itself (mc/gates.py, the "
        "fixture pulse module) is not counted as an escape of the library",
        "after every call sys.modules must not contain the empty string as a key (the only process-global "
        "residue that is checked directly; everything else is judged through the outcomes of later calls)",
        "outside the bounds, observed to escape on the tree this was written against: a float literal that "
        "overflows (1.0e999) as a macro argument -> OverflowError; integer literals of more than 4300 digits -> "
        "ValueError; about 400 nested blocks -> RecursionError",
    )

    # ---- bounds / enumeration
    def bounds(self, tier):
        q = tier == "quick"
        return {
            "alphabet": 18,
            "max_length": 4 if q else 5,
            "extended_alphabet": 0 if q else 23,
            "extended_alphabet_max_length": 0 if q else 4,
            "contexts": len(CONTEXTS),
            "seed_programs": len(SEEDS),
            "numeric_literals": len(NUM_LITERALS),
            "numeric_positions": len(NUM_TEMPLATES),
            "override_values": len(OVR_VALUES),
            "override_positions": len(OVR_TEMPLATES),
            "module_name_alphabet": len(MODCHARS),
            "module_name_max_length": 3 if q else 4,
            "mutation_alphabet": 18 if q else 23,
            "call_alphabet": len(drv.ALPHABET) if q else len(drv.ALPHABET) + len(drv.EXTRA),
            "fresh_history_depth": 2,
            "warm_history_depth": 3 if q else 4,
            "warm_history_depth_extended_alphabet": 0 if q else 3,
        }

    def _ext_cases(self, alph_id, maxlen, only_len=None):
        """bundles covering every string of length <= maxlen (or exactly only_len)"""
        alph = ALPHABETS[alph_id]
        if only_len is not None:
            k = only_len - 2
            for p in itertools.product(alph, repeat=k):
                for cid in range(len(CONTEXTS)):
                    yield ("ext", cid, alph_id, "".join(p), 2, 2)
            return
        top = max(0, maxlen - 2)
        for k in range(0, top + 1):
            for p in itertools.product(alph, repeat=k):
                for cid in range(len(CONTEXTS)):
                    if k < top:
                        yield ("ext", cid, alph_id, "".join(p), 0, 0)
                    else:
                        yield ("ext", cid, alph_id, "".join(p), 0, min(2, maxlen))

    def all_cases(self, tier):
        q = tier == "quick"
        calls = drv.ALPHABET if q else drv.ALPHABET + drv.EXTRA
        # histories first within each shard (they wait on subprocesses), shortest first
        for c in calls:
            yield ("hist", (c,))
        if q:
            yield from self._ext_cases(0, 4)
        else:
            yield from self._ext_cases(1, 4)
        for name in module_names(3 if q else 4):
            yield ("mod", name)
        for tname, _t in NUM_TEMPLATES:
            for li in range(len(NUM_LITERALS)):
                yield ("num", tname, li)
        for tname, _t in OVR_TEMPLATES:
            for vkey, _v in OVR_VALUES:
                yield ("ovr", tname, vkey)
        for fname, _f in LONG_FRAMES:
            yield ("long", fname, -1)  # every run of the frame, stopping at the first one that does not return
        ma = 0 if q else 1
        for sid, seed in enumerate(SEEDS):
            for pos in range(len(seed) + 1):
                yield ("mut", sid, ma, pos)
        for a in calls:
            for b in calls:
                yield ("hist", (a, b))
        for c in drv.ALPHABET:
            yield ("tree", c, 3 if q else 4, 0)
        if not q:
            for c in calls:
                yield ("tree", c, 3, 1)
            yield from self._ext_cases(0, 5, only_len=5)

    def shards(self, tier):
        # runs in the parent before the worker pool is forked: the workers inherit the baselines
        # (a replay computes the ones it needs on demand)
        precompute_baselines(drv.ALPHABET if tier == "quick" else drv.ALPHABET + drv.EXTRA)
        kinds = set("ok" in o for o in _BASE.values())
        if kinds != {True, False}:
            raise RuntimeError("the call alphabet does not contain both succeeding and failing calls")
        return super().shards(tier)

    def selfcheck(self):
        assert set(drv.ALPHABET + drv.EXTRA) == set(drv.CALLS)
        for name, (ep, _text) in drv.CALLS.items():
            assert ep in ("parse", "auto", "autoinj", "header", "sexpr", "emulate", "emushared", "runstr"), name
        # the module-name family must not name anything that really exists besides the fixture package
        names = list(module_names(4))
        assert "." in names and ".a" in names and "a.1" in names and "_" in names
        assert not any(n in names for n in ("1", "a.", "..", ".1", "a..a", "1a"))
        for top in sorted({n.lstrip(".").split(".")[0] for n in names} - {"", "vpulses"}):
            if importlib.util.find_spec(top) is not None or os.path.exists(os.path.join(FIX, top)):
                raise RuntimeError("module name %r of the enumerated family exists in this environment" % top)
        # the position oracle accepts and rejects what it should
        class _E:  # noqa: N801
            def __init__(self, line, column):
                self.line, self.column = line, column

        t = "ab\ncd"
        assert _position_fault(_E(1, 1), t) is None and _position_fault(_E(2, 3), t) is None
        assert _position_fault(_E(3, 1), t) is None and _position_fault(_E("EOF", 0), t) is None
        assert _position_fault(_E(0, 1), t) and _position_fault(_E(4, 1), t)
        assert _position_fault(_E(1, 0), t) and _position_fault(_E(1, 4), t) and _position_fault(_E(3, 2), t)
        assert _position_fault(object(), t)

    # ---- presentation
    def show(self, case):
        k = case[0]
        if k == "text":
            return {"entry": case[1], "text": case[2]}
        if k == "ext":
            _k, cid, aid, prefix, lo, hi = case
            return {"context": CONTEXTS[cid], "prefix": prefix, "alphabet": len(ALPHABETS[aid]), "extensions": [lo, hi]}
        if k == "mut":
            _k, sid, aid, pos = case
            return {"seed": SEEDS[sid], "position": pos, "alphabet": len(ALPHABETS[aid])}
        if k == "mod":
            return {"module_name": case[1]}
        if k == "long" and case[2] < 0:
            return {"frame": dict(LONG_FRAMES)[case[1]], "run": "each of %d long runs" % len(LONG_RUNS)}
        if k == "long":
            r = LONG_RUNS[case[2]]
            return {"frame": dict(LONG_FRAMES)[case[1]], "run": "%r x %d" % (r[: len(r) // (len(r) // max(1, len(set(r))) or 1)][:2], len(r))}
        if k == "num":
            lit = NUM_LITERALS[case[2]]
            return {"position": case[1], "literal": lit if len(lit) < 60 else "%d digits" % len(lit)}
        if k == "ovr":
            return {"text": dict(OVR_TEMPLATES)[case[1]], "override_dict": {"a": case[2]}}
        if k == "hist":
            return {"history": [[c, drv.CALLS[c][0], drv.CALLS[c][1]] for c in case[1]]}
        if k == "tree":
            return {"first_call": case[1], "depth": case[2], "alphabet": "extended" if case[3] else "base"}
        return list(case)

    def shrink(self, case):
        k = case[0]
        if k == "text":
            _k, ep, text = case
            n = len(text)
            pieces = _pieces(text)
            if len(pieces) > 1:
                for i in range(len(pieces)):
                    yield ("text", ep, "".join(pieces[:i] + pieces[i + 1:]))
            chunk = n // 2
            while chunk >= 1:
                for i in range(0, n, chunk):
                    yield ("text", ep, text[:i] + text[i + chunk:])
                chunk //= 2
            for i, ch in enumerate(text):
                sub = _canon_char(ch)
                if sub != ch:
                    yield ("text", ep, text[:i] + sub + text[i + 1:])
        elif k == "hist":
            seq = case[1]
            n = len(seq)
            chunk = n // 2
            while chunk >= 1:
                for i in range(0, n, chunk):
                    cand = seq[:i] + seq[i + chunk:]
                    if cand:
                        yield ("hist", cand)
                chunk //= 2

    # ---- execution
    _LONG_SEEN = {}  # text -> True once it has timed out in this process (a 60 s wait is not repeated to confirm it)

    def _run_long(self, case, ctx):
        if case[2] < 0:
            for ri in range(len(LONG_RUNS)):
                before = len(ctx.failures)
                self._run_long(("long", case[1], ri), ctx)
                if len(ctx.failures) > before:
                    break
            return
        text = long_text(case[1], case[2])
        ctx.trace()
        ctx.state(("long", case[1], case[2]))
        try:
            if self._LONG_SEEN.get(text):
                raise subprocess.TimeoutExpired("child", LONG_LIMIT)
            p = subprocess.run([sys.executable, "-c", _LONG_CHILD, os.path.join(os.environ.get("VERIF_REPO", "/repo"), "src")],
                               input=text, capture_output=True, text=True, timeout=LONG_LIMIT)
        except subprocess.TimeoutExpired:
            self._LONG_SEEN[text] = True
            ctx.outcome("long:TIMEOUT")
            ctx.fail("non-termination:wall-clock", "parse_jaqal_string did not return within %.0f s on a %d-character text "
                     "(a text of this shape normally takes well under a second)" % (LONG_LIMIT, len(text)), case=("long", case[1], case[2]))
            return
        try:
            out = json.loads(p.stdout.strip().splitlines()[-1])
        except Exception:  # noqa: BLE001
            raise RuntimeError("long-run child gave no outcome: %r %r" % (p.stdout[-300:], p.stderr[-300:]))
        if "ok" in out:
            ctx.outcome("long:accepted")
        elif out["exc"] == "JaqalError":
            ctx.outcome("long:" + out["type"])
        else:
            ctx.outcome("long:ESCAPE")
            ctx.fail("escape-" + out["exc"], "%s escaped from parse of a %d-character text: %s" % (out["exc"], len(text), out.get("msg")))

    def run_case(self, case, ctx):
        k = case[0]
        if k == "text":
            self._run_text(case, ctx)
        elif k == "ext":
            _k, cid, aid, prefix, lo, hi = case
            alph = ALPHABETS[aid]
            base = CONTEXTS[cid] + prefix
            texts = (base + "".join(e) for n in range(lo, hi + 1) for e in itertools.product(alph, repeat=n))
            judge_texts(texts, ctx, cid)
        elif k == "mut":
            _k, sid, aid, pos = case
            judge_texts(self._mutants(SEEDS[sid], ALPHABETS[aid], pos), ctx, "seed")
        elif k == "long":
            self._run_long(case, ctx)
        elif k == "mod":
            use = "from %s usepulses *\n" % case[1]
            judge_texts((use, use + "register q[1]\n"), ctx, "mod")
        elif k == "num":
            text = dict(NUM_TEMPLATES)[case[1]].replace("{L}", NUM_LITERALS[case[2]])
            judge_texts((text,), ctx, "num")
        elif k == "ovr":
            text, fails = run_override(case[1], case[2], ctx)
            ctx.transition(1)
            for ep, clause, detail in fails:
                ctx.fail(clause, "[%s] %r with override_dict={'a': %s}: %s" % (ep, text, case[2], detail))
        elif k == "hist":
            self._run_hist(case[1], ctx)
        elif k == "tree":
            self._run_tree(case, ctx)
        else:
            raise ValueError("unknown case %r" % (case,))

    @staticmethod
    def _mutants(seed, alph, pos):
        if pos < len(seed):
            yield seed[:pos] + seed[pos + 1:]
        for ch in alph:
            yield seed[:pos] + ch + seed[pos:]
        if pos < len(seed):
            for ch in alph:
                if ch != seed[pos]:
                    yield seed[:pos] + ch + seed[pos + 1:]

    def _run_text(self, case, ctx):
        _k, ep, text = case
        ran = False
        for e, label, key, fails in pipeline(text, only=ep):
            if e != ep:
                continue
            ran = True
            ctx.trace()
            ctx.outcome("%s:%s" % (ep, label))
            ctx.state(("text", ep, key))
            for clause, detail in fails:
                ctx.fail(clause, "[%s] %r: %s" % (ep, text, detail))
        if not ran:
            ctx.outcome("%s:not-applicable" % ep)
        ctx.transition(1)

    def _judge_outcomes(self, route, seq, outs, ctx, reported):
        """compare each outcome with its baseline; -> list of (index, call) that deviate"""
        dev = []
        for i, (c, o) in enumerate(zip(seq, outs)):
            ctx.trace()
            ctx.transition(1)
            b = baseline(c)
            same = _sans_leak(o) == _sans_leak(b)  # the residue flag is reported once, as its own clause
            if same:
                ctx.outcome("history:%s" % ("returns" if "ok" in o else o["exc"]))
            else:
                ctx.outcome("history:deviates-from-baseline")
                dev.append((i, c, o))
            if "leak" in o and ("leak", c) not in reported:
                reported.add(("leak", c))
                if "leak" in b:
                    ctx.fail("sys-modules-empty-key", "after call %r %r alone in a fresh interpreter: %s" % (c, drv.CALLS[c], o["leak"]), case=("hist", (c,)))
                elif route == "fresh" and not any("leak" in baseline(x) for x in seq):
                    ctx.fail("sys-modules-empty-key", "after call %d of the history %r: %s" % (i + 1, list(seq), o["leak"]))
            t = outcome_type_fault(c, o)
            if t and (t, c, o["exc"]) not in reported:
                reported.add((t, c, o["exc"]))
                if same:  # the call alone already violates oracle 1
                    ctx.fail(t, "call %r %r alone in a fresh interpreter %s" % (c, drv.CALLS[c], _short(o)), case=("hist", (c,)))
                elif route == "fresh":
                    ctx.fail(t, "call %r %r as call %d of the history %r %s" % (c, drv.CALLS[c], i + 1, list(seq), _short(o)))
                # (warm route: the deviation is reported with a reduced fresh history, which shows this too)
        return dev

    def _run_hist(self, seq, ctx):
        outs = run_history(seq)
        for i in range(1, len(seq) + 1):
            ctx.state(("fresh", seq[:i], [_digest(o) for o in outs[:i]]))
        if len({("ok" in o) for o in outs}) == 2:
            ctx.nontriv(("hist", seq))
        reported = set()
        for i, c, o in self._judge_outcomes("fresh", seq, outs, ctx, reported):
            ctx.fail(
                "history-dependent-outcome:%s" % c,
                "call %r %r alone in a fresh interpreter %s; as call %d of the history %r it %s"
                % (c, drv.CALLS[c], _short(baseline(c)), i + 1, list(seq), _short(o)),
            )

    def _run_tree(self, case, ctx):
        _k, root, depth, aid = case
        alphabet = drv.ALPHABET + drv.EXTRA if aid else drv.ALPHABET
        hs = tree_histories(root, depth, alphabet)
        outs = run_multi(hs)
        reported = set()
        seen_dev = set()
        flat = []
        for h, os_ in zip(hs, outs):
            ctx.state(("warm", root, h, [_digest(o) for o in os_]))
            if len({("ok" in o) for o in os_}) == 2:
                ctx.nontriv(("hist", h))
            start = len(flat)
            flat.extend(h)
            for i, c, o in self._judge_outcomes("warm", h, os_, ctx, reported):
                key = (c, _digest(o))
                if key in seen_dev:
                    ctx.count("suppressed_repeats_of_reported_failure_families")
                    continue
                seen_dev.add(key)
                seq = tuple(flat[: start + i + 1])
                small = reduce_sequence(seq, c)
                ctx.fail(
                    "history-dependent-outcome:%s" % c,
                    "call %r %r alone in a fresh interpreter %s; after %d earlier calls in one interpreter it %s "
                    "(reduced history: %r)" % (c, drv.CALLS[c], _short(baseline(c)), start + i, _short(o), list(small)),
                    case=("hist", small),
                )


CHECK = C16()


def _count(tier):
    from collections import Counter

    n = Counter()
    texts = 0
    for case in CHECK.all_cases(tier):
        n[case[0]] += 1
        if case[0] == "ext":
            a = len(ALPHABETS[case[2]])
            texts += sum(a ** k for k in range(case[4], case[5] + 1))
        elif case[0] == "mut":
            texts += 2 * len(ALPHABETS[case[2]])
        elif case[0] == "mod":
            texts += 2
        elif case[0] in ("num", "ovr"):
            texts += 1
    return dict(n), texts


if __name__ == "__main__":
    for t in ("quick", "thorough"):
        print(t, _count(t))
