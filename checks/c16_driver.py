"""C16 history driver: execute a call history in THIS (fresh) interpreter, print the outcomes.

    /venv/bin/python checks/c16_driver.py '["use-rel", "ok"]'        -> one JSON list of outcomes
    /venv/bin/python checks/c16_driver.py --multi '[["ok","ok"], ["ok","syn-eof"]]'
                                                                      -> histories replayed back to back
                                                                         in this one process; list of lists
    (`-` instead of the JSON text reads it from standard input)

The process imports nothing but the standard library, the fuel meter (standard library only) and
jaqalpaq itself, and jaqalpaq only when the first call runs - in particular it does NOT import
importlib.util, numpy-using harness modules or mc.impl, so that what a call finds in the interpreter
is what a user's first call would find.

An outcome is a JSON object:
    {"ok": <canonical text of the result>}                       or
    {"exc": <type name>, "mro": [...base names...], "msg": str(e), "line": ..., "column": ...}
Memory addresses in texts are masked.  numpy.random is seeded before every call.
"""
import json
import os
import re
import sys

HERE = os.path.dirname(os.path.abspath(__file__))
VERIF = os.path.dirname(HERE)
FIX = os.path.join(VERIF, "fixtures", "pulses")
REPO = os.environ.get("VERIF_REPO", "/repo")
SRC = os.path.join(REPO, "src")

HDR = "register q[2]\n"
USE_BODY = "register q[2]\nprepare_all\na q[0]\nmeasure_all\n"
X_BODY = "register q[2]\nprepare_all\nX q[0]\nmeasure_all\n"

# name -> (entry point, text)
CALLS = {
    # a valid program using most statement kinds (anonymous gates, autoload off)
    "ok": ("parse", "let n 2\nregister q[n]\nmap a q[0:n:1]\nmacro m b { g b; < h a[1] | g q[0] > }\nloop n { m a[0] }\n"),
    # syntax error in the middle of the text (a stray bracket on line 2)
    "syn-mid": ("parse", HDR + "g q[0] ]\ng q[1]\n"),
    # syntax error at end of input (unterminated block)
    "syn-eof": ("parse", HDR + "{ g q[0]"),
    # a character outside the language
    "illegal": ("parse", HDR + "g $\n"),
    # semantic errors detected by the builder / parser actions
    "semantic": ("parse", HDR + "g r[0]\n"),
    "redefine": ("parse", HDR + "let q 1\n"),
    "zero-reg": ("parse", "let n 1\nregister q[0]\n"),
    # indexing something that is not a register
    "index-let": ("parse", "let a 1\n" + HDR + "g a[0]\n"),
    # errors raised inside grammar actions, whose position is whatever the parser recorded last: the unimplemented
    # import statement (first thing in the text / after a header statement further down) and a header statement
    # after the body
    "import-first": ("parse", "import a as b\n"),
    "import-later": ("parse", "\n" + HDR + "  let n 1\n import a as b\n"),
    "hdr-after-body": ("parse", HDR + "g q[0]\n\n  let n 1\n"),
    # pulse definitions: relative / absolute, existing / missing (autoload on, fixture import path)
    "use-rel": ("auto", "from .vpulses usepulses *\n" + USE_BODY),
    "use-abs": ("auto", "from vpulses usepulses *\n" + USE_BODY),
    "use-rel-missing": ("auto", "from .nopulses usepulses *\n" + USE_BODY),
    "use-abs-missing": ("auto", "from nopulses usepulses *\n" + USE_BODY),
    # the bare relative module name (a DOTIDENTIFIER may be a lone dot)
    "use-dot": ("auto", "from . usepulses *\n" + USE_BODY),
    # a gate that the pulse module defines AND that the inject_pulses calls below override
    "use-abs-x": ("auto", "from vpulses usepulses *\n" + X_BODY),
    "use-rel-x": ("auto", "from .vpulses usepulses *\n" + X_BODY),
    # usepulses combined with inject_pulses = {X(q, theta)}: the injected X wins over the module's X(q)
    "inj-abs": ("autoinj", "from vpulses usepulses *\n" + HDR + "prepare_all\nX q[0] 0.5\nH q[1]\nmeasure_all\n"),
    "inj-rel": ("autoinj", "from .vpulses usepulses *\n" + HDR + "prepare_all\nX q[0] 0.5\nH q[1]\nmeasure_all\n"),
    # ... and one that fails semantically after the pulses were loaded (arity of the injected X)
    "inj-abs-bad": ("autoinj", "from vpulses usepulses *\n" + X_BODY),
    # an unknown gate when pulses are loaded
    "use-abs-nogate": ("auto", "from vpulses usepulses *\nregister q[2]\nnosuchgate q[0]\n"),
    # header-only parse of a text with a body (does not go through parse_jaqal_string)
    "header": ("header", "let n 2\nregister q[n]\nmap a q\ng a[0]\n}\n"),
    # the full parse of the very same text (a syntax error on its last line)
    "header-full": ("parse", "let n 2\nregister q[n]\nmap a q\ng a[0]\n}\n"),
    # emulation (gates injected) and emulation through usepulses
    "emulate": ("emulate", HDR + "loop 2 { prepare_all; X q[0]; H q[1]; measure_all }\nsubcircuit { CX q[0] q[1] }\n"),
    "emulate-bad": ("emulate", HDR + "prepare_all\nX q[0]\n"),
    # one gate table object shared by all calls of the process (as a user who builds it once would): the same alias name
    # and index over different slices of the register
    "emu-alias-lo": ("emushared", "register q[3]\nmap a q[0:2]\nprepare_all\nX a[0]\nmeasure_all\n"),
    "emu-alias-hi": ("emushared", "register q[3]\nmap a q[1:3]\nprepare_all\nX a[0]\nmeasure_all\n"),
    "emu-alias-bad": ("emushared", "register q[3]\nmap a q[2:3]\nprepare_all\nX a[0]\nX a[5]\nmeasure_all\n"),
    "run-string": ("runstr", "from vpulses usepulses *\n" + HDR + "prepare_all\na q[1]\nmeasure_all\n"),
    # the S-expression entry point (never applies the sly patch itself)
    "sexpr": ("sexpr", HDR + "macro m a { g a }\n< m q[0] | m q[1] >\n"),
    "sexpr-bad": ("sexpr", HDR + "< m q[0] | \n"),
}

# the alphabet of the explored state graph (order = simplest first)
ALPHABET = (
    "ok", "syn-mid", "syn-eof", "illegal", "semantic", "index-let", "import-first", "hdr-after-body",
    "use-rel", "use-abs", "use-rel-missing", "use-abs-missing", "use-dot",
    "use-abs-x", "inj-abs", "inj-rel", "inj-abs-bad",
    "header", "header-full", "emulate", "emu-alias-lo", "emu-alias-hi", "sexpr",
)
# calls added in the thorough tier
EXTRA = ("emu-alias-bad", "import-later", "redefine", "zero-reg", "use-abs-nogate", "use-rel-x", "emulate-bad", "run-string", "sexpr-bad")

FUEL = 400000

_ADDR = re.compile(r"0x[0-9a-fA-F]+")
_state = {"ready": False}


def _setup():
    if _state["ready"]:
        return
    if SRC not in sys.path[:1]:
        sys.path.insert(0, SRC)
    if FIX not in sys.path:
        sys.path.append(FIX)
    if VERIF not in sys.path:
        sys.path.append(VERIF)
    os.environ["JAQALPAQ_RUN_EMULATOR"] = "1"
    os.environ.pop("JAQALPAQ_RUN_PORT", None)
    _state["ready"] = True


def _native():
    """a small injected gate table, built from jaqalpaq's public classes only"""
    import numpy as np
    from jaqalpaq.core import GateDefinition, Parameter, ParamType
    from jaqalpaq.core.gatedef import BusyGateDefinition

    def x():
        return np.array([[0, 1], [1, 0]], dtype=complex)

    def h():
        return np.array([[1, 1], [1, -1]], dtype=complex) / np.sqrt(2)

    def cx():
        m = np.zeros((4, 4), dtype=complex)
        m[0, 0] = m[2, 2] = 1
        m[1, 3] = m[3, 1] = 1
        return m

    q = ParamType.QUBIT
    defs = [
        BusyGateDefinition("prepare_all"),
        BusyGateDefinition("measure_all"),
        GateDefinition("X", [Parameter("q", q)], ideal_unitary=x),
        GateDefinition("H", [Parameter("q", q)], ideal_unitary=h),
        GateDefinition("CX", [Parameter("c", q), Parameter("t", q)], ideal_unitary=cx),
    ]
    return {d.name: d for d in defs}


def show_result(res):
    """canonical text of an execution result: exact probabilities and (seeded) readouts"""
    subs = []
    for sc in res.subcircuits:
        probs = [round(float(p), 9) for p in sc.probability_by_int]
        subs.append([sc.index, probs])
    reads = [[r.index, r.subcircuit.index, r.as_int] for r in res.readouts]
    return json.dumps({"subcircuits": subs, "readouts": reads}, sort_keys=True)


def _injected_x():
    """inject_pulses for the `autoinj` calls: X with an extra angle, unlike the fixture module's X(q)"""
    import numpy as np
    from jaqalpaq.core import GateDefinition, Parameter, ParamType

    def rx(theta):
        c, s = np.cos(theta / 2), np.sin(theta / 2)
        return np.array([[c, -1j * s], [-1j * s, c]], dtype=complex)

    return {"X": GateDefinition("X", [Parameter("q", ParamType.QUBIT), Parameter("theta", ParamType.FLOAT)], ideal_unitary=rx)}


def show_circuit(c):
    from jaqalpaq.generator import generate_jaqal_program

    native = ["%s/%d" % (n, len(g.parameters)) for n, g in sorted(c.native_gates.items())]
    return generate_jaqal_program(c) + "\n# native gates: " + " ".join(native)


def perform(ep, text):
    """run one entry point on one text -> canonical result text (exceptions propagate)"""
    if ep == "parse":
        from jaqalpaq.parser import parse_jaqal_string

        return show_circuit(parse_jaqal_string(text, autoload_pulses=False))
    if ep == "auto":
        from jaqalpaq.parser import parse_jaqal_string

        return show_circuit(parse_jaqal_string(text, autoload_pulses=True, import_path=FIX))
    if ep == "autoinj":
        from jaqalpaq.parser import parse_jaqal_string

        return show_circuit(
            parse_jaqal_string(text, inject_pulses=_injected_x(), autoload_pulses=True, import_path=FIX)
        )
    if ep == "header":
        from jaqalpaq.parser.parser import parse_jaqal_string_header

        return show_circuit(parse_jaqal_string_header(text))
    if ep == "sexpr":
        from jaqalpaq.parser.parser import parse_to_sexpression

        return repr(parse_to_sexpression(text))
    if ep == "emulate":
        from jaqalpaq.parser import parse_jaqal_string
        from jaqalpaq.emulator import run_jaqal_circuit

        c = parse_jaqal_string(text, inject_pulses=_native(), autoload_pulses=False)
        return show_result(run_jaqal_circuit(c))
    if ep == "emushared":
        from jaqalpaq.parser import parse_jaqal_string
        from jaqalpaq.emulator import run_jaqal_circuit

        if "native" not in _state:
            _state["native"] = _native()
        c = parse_jaqal_string(text, inject_pulses=_state["native"], autoload_pulses=False)
        return show_result(run_jaqal_circuit(c))
    if ep == "runstr":
        from jaqalpaq.emulator import run_jaqal_string

        return show_result(run_jaqal_string(text, import_path=FIX))
    raise ValueError("unknown entry point %r" % (ep,))


def describe_exception(e):
    out = {
        "exc": type(e).__name__,
        "mro": [k.__name__ for k in type(e).__mro__[1:] if k not in (object, BaseException)],
        "msg": _ADDR.sub("0x?", str(e))[:400],
    }
    for attr in ("line", "column"):
        if hasattr(e, attr):
            v = getattr(e, attr)
            out[attr] = v if isinstance(v, (int, str)) or v is None else repr(v)
    return out


def one_call(name):
    _setup()
    from mc.fuel import fuel, OutOfFuel

    ep, text = CALLS[name]
    if ep in ("emulate", "emushared", "runstr"):
        import numpy  # a dependency of the emulator itself

        numpy.random.seed(0)
    try:
        with fuel(FUEL):
            out = {"ok": _ADDR.sub("0x?", perform(ep, text))}
    except OutOfFuel:
        out = {"exc": "OutOfFuel", "mro": [], "msg": "fuel exhausted (%d steps)" % FUEL}
    except Exception as e:  # noqa: BLE001 - the outcome *is* the exception
        out = describe_exception(e)
    if "" in sys.modules:  # left in place: what it does to later calls is part of the history
        out["leak"] = "sys.modules has an empty-string key"
    return out


def main(argv):
    multi = bool(argv) and argv[0] == "--multi"
    spec = argv[1] if multi else argv[0]
    if spec == "-":  # long specifications come on stdin
        spec = sys.stdin.read()
    spec = json.loads(spec)
    if multi:
        out = [[one_call(c) for c in h] for h in spec]
    else:
        out = [one_call(c) for c in spec]
    sys.stdout.write("\n@@C16@@" + json.dumps(out) + "\n")
    sys.stdout.flush()


if __name__ == "__main__":
    main(sys.argv[1:])
