"""C14 - no program is accepted with a reference that cannot be honoured.

Space (product-exhaustive):
 refs   value v in {-2,-1,0,size-1,size,size+1} (and 0.5, 1.0 where a number can arrive) in each
        reference position (direct index, single-qubit alias index, slice start/stop/step, index
        into an alias of an alias, index into a strided alias, register size) x way of arrival
        {literal, let, override, macro argument, macro argument that is a let, macro argument
        overridden} x register size 1-3;
 kinds  index / alias applied to a let, to a single-qubit alias, to a macro parameter bound to
        a number or a qubit; an index that names a register;
 names  undefined names in every position; every ordered pair of declaration kinds sharing a
        name; duplicate macros; macro named like a native gate;
 gates  unknown gate / every arity 0-3 / every kind of argument against 7 native-gate
        situations (none, injected, one or two usepulses fixtures in both orders, injected +
        imported with a common gate name).
Oracle: staged pipeline parse -> fill_in_let(override) -> expand_macros -> run.  If the model
        finds a reference that cannot be honoured, JaqalError must be raised no later than the
        stage at which every value involved is concrete (literal: parse; let/override:
        fill_in_let; macro substitution: expand_macros) and no result may be produced.  If the
        program is accepted, the resolved indices of every gate equal the model's and the gate
        definition in force is the one the precedence rule selects.
"""
import itertools
import os
import sys

from mc import impl, gates
from mc.framework import Check, VERIF
from mc.fuel import fuel, OutOfFuel
from mc.ref import render, abstraction, ast as A
from mc.ref.meaning import Model, Invalid

FIX = os.path.join(VERIF, "fixtures", "pulses")
if FIX not in sys.path:
    sys.path.append(FIX)

STAGES = ("parse", "let", "macro", "run")
JUDGED = {"out-of-range", "non-integer", "index-non-register", "undefined", "duplicate", "unknown-gate",
          "arity", "kind", "not-a-number", "call-before-definition"}

# model-side gate tables
T_VP1 = {"prepare_all": (), "measure_all": (), "X": ("q",), "G": ("q",), "K": ("q",)}
T_VP2 = {"prepare_all": (), "measure_all": (), "X": ("q",), "G": ("q", "f"), "L": ("q",)}
T_INJ = {"prepare_all": (), "measure_all": (), "X": ("q",), "G": ("q", "q")}
T_FULL = {k: v[0] for k, v in gates.SIGS.items()}

MODES = {
    # name: (usepulses modules in order, injected?, model table)
    "none": ((), False, None),
    "full": ((), "full", T_FULL),
    "inject": ((), True, T_INJ),
    "vp1": (("vp1",), False, T_VP1),
    "vp2": (("vp2",), False, T_VP2),
    "vp1+vp2": (("vp1", "vp2"), False, {**T_VP1, **T_VP2}),
    "vp2+vp1": (("vp2", "vp1"), False, {**T_VP2, **T_VP1}),
    "inject+vp1": (("vp1",), True, {**T_VP1, **T_INJ}),
    "inject+vp2+vp1": (("vp2", "vp1"), True, {**T_VP2, **T_VP1, **T_INJ}),
}


def injected_table():
    Q = impl.ParamType.QUBIT
    P = impl.Parameter
    import numpy as np

    def u2():
        m = np.zeros((4, 4), dtype=complex)
        m[0, 0] = m[2, 2] = 1
        m[1, 3] = m[3, 1] = 1
        return m

    def ux():
        return np.array([[0, 1], [1, 0]], dtype=complex)

    return {
        "prepare_all": impl.BusyGateDefinition("prepare_all"),
        "measure_all": impl.BusyGateDefinition("measure_all"),
        "X": impl.GateDefinition("X", [P("q", Q)], ideal_unitary=ux),
        "G": impl.GateDefinition("G", [P("a", Q), P("b", Q)], ideal_unitary=u2),
    }


def wrap(header, stmts, macros=()):
    """an executable program around the statements under test"""
    return A.prog(header, tuple(macros) + (A.gate("prepare_all"),) + tuple(stmts) + (A.gate("measure_all"),))


# ---------------------------------------------------------------- generators
def ref_cases(tier="quick"):
    for size in ((1, 2, 3, 4) if tier == "quick" else (1, 2, 3, 4, 5, 6)):
        ints = sorted({-2, -1, 0, 1, size - 1, size, size + 1} | (set() if tier == "quick" else {-3, size - 2, size + 2, 2 * size}))
        nums = ints + [0.5, 1.0]
        R = ("register", "q", size)
        # positions: name -> (header builder(valueexpr), statement builder(valueexpr), in_body)
        def direct(v):
            return (R,), (A.gate("X", A.item("q", v)),)

        def single(v):
            return (R, ("map", "a", "q", v)), (A.gate("X", "a"),)

        def lo(v):
            return (R, ("map", "a", "q", v, size, None)), (A.gate("X", A.item("a", 0)),)

        def hi(v):
            return (R, ("map", "a", "q", 0, v, None)), (A.gate("X", A.item("a", 0)),)

        def st(v):
            return (R, ("map", "a", "q", 0, size, v)), (A.gate("X", A.item("a", 0)),)

        def chain(v):
            return (R, ("map", "a", "q", 0, size, None), ("map", "b", "a")), (A.gate("X", A.item("b", v)),)

        def strided(v):
            return (R, ("map", "a", "q", 0, size, 2)), (A.gate("X", A.item("a", v)),)

        def regsize(v):
            return (("register", "q", v),), (A.gate("X", A.item("q", 0)),)

        def rev_start(v):
            return (R, ("map", "a", "q", v, None if False else 0, -1)), (A.gate("X", A.item("a", 0)),)

        def rev_stop(v):
            return (R, ("map", "a", "q", size - 1, v, -1)), (A.gate("X", A.item("a", 0)),)

        def under_size(v):
            # the register is sized by v, a gate uses the last qubit of the nominal size
            return (("register", "q", v),), (A.gate("X", A.item("q", size - 1)),)

        def size_vs_single(v):
            # ... the last qubit of the nominal size is named by a single-qubit alias with a literal index
            return (("register", "q", v), ("map", "a", "q", size - 1)), (A.gate("X", "a"),)

        def size_vs_slice(v):
            # ... a literal slice over the nominal size
            return (("register", "q", v), ("map", "a", "q", 0, size, None)), (A.gate("X", A.item("a", 0)),)

        def start_vs_single(v):
            # a slice starting at v; a single-qubit alias with a literal index into that slice
            return (("register", "q", size + 1), ("map", "r", "q", v, size + 1, None), ("map", "a", "r", size - 1)), (A.gate("X", "a"),)

        def wrong_up_start(v):
            # start beyond the stop with a positive step: an empty alias, no index into it can be honoured
            return (R, ("map", "a", "q", v, 1, None)), (A.gate("X", A.item("a", 0)),)

        def wrong_up_stop(v):
            return (R, ("map", "a", "q", size - 1, v, None)), (A.gate("X", A.item("a", 0)),)

        def wrong_down_start(v):
            return (R, ("map", "a", "q", v, size - 1, -1)), (A.gate("X", A.item("a", 0)),)

        def wrong_down_stop(v):
            return (R, ("map", "a", "q", 0, v, -1)), (A.gate("X", A.item("a", 0)),)

        positions = {"wrong-way-up-start": wrong_up_start, "wrong-way-up-stop": wrong_up_stop,
                     "wrong-way-down-start": wrong_down_start, "wrong-way-down-stop": wrong_down_stop,
                     "size-vs-single": size_vs_single, "size-vs-slice": size_vs_slice, "start-vs-single": start_vs_single,
                     "reversed-start": rev_start, "reversed-stop": rev_stop, "size-vs-index": under_size, "direct": direct, "single": single, "slice-start": lo, "slice-stop": hi, "slice-step": st,
                     "chain": chain, "strided": strided, "register-size": regsize}
        for pname, mk in positions.items():
            in_body = pname in ("direct", "chain", "strided")
            for v in nums:
                lit_ok = isinstance(v, int) and not (pname in ("register-size", "size-vs-index", "size-vs-single", "size-vs-slice") and v <= 0)
                # literal
                if lit_ok:
                    h, s = mk(v)
                    yield ("ref:%s:literal" % pname, wrap(h, s), (), "parse", "full")
                # let
                h, s = mk("v")
                yield ("ref:%s:let" % pname, wrap((("let", "v", v),) + h, s), (), "let", "full")
                # override of a let whose declared value is harmless
                safe = size if pname in ("size-vs-index", "size-vs-single", "size-vs-slice") else 1 if pname in ("slice-stop", "slice-step", "register-size") else 0
                yield ("ref:%s:override" % pname, wrap((("let", "v", safe),) + h, s), (("v", v),), "let", "full")
                if in_body:
                    # macro argument: the reference is written inside a macro body over a parameter
                    hm, sm = mk("p")
                    mac = A.macro("mr", ("p",), A.seq(*sm))
                    yield ("ref:%s:macro-arg" % pname, wrap(hm, (A.gate("mr", v),), (mac,)), (), "macro", "full")
                    yield ("ref:%s:macro-arg-let" % pname, wrap((("let", "v", v),) + hm, (A.gate("mr", "v"),), (mac,)), (), "macro", "full")
                    yield ("ref:%s:macro-arg-override" % pname, wrap((("let", "v", 0),) + hm, (A.gate("mr", "v"),), (mac,)), (("v", v),), "macro", "full")


def kind_cases():
    R = ("register", "q", 2)
    L = ("let", "a", 1)
    S = ("map", "s", "q", 0)
    yield ("kind:index-let", wrap((L, R), (A.gate("X", A.item("a", 0)),)), (), "parse", "full")
    yield ("kind:index-single-alias", wrap((R, S), (A.gate("X", A.item("s", 0)),)), (), "parse", "full")
    yield ("kind:map-of-let", wrap((L, R, ("map", "b", "a")), (A.gate("X", A.item("q", 0)),)), (), "parse", "full")
    yield ("kind:map-of-let-index", wrap((L, R, ("map", "b", "a", 0)), (A.gate("X", A.item("q", 0)),)), (), "parse", "full")
    yield ("kind:map-of-let-slice", wrap((L, R, ("map", "b", "a", 0, 1, None)), (A.gate("X", A.item("q", 0)),)), (), "parse", "full")
    yield ("kind:map-of-single", wrap((R, S, ("map", "b", "s")), (A.gate("X", A.item("q", 0)),)), (), "parse", "full")
    yield ("kind:map-of-single-index", wrap((R, S, ("map", "b", "s", 0)), (A.gate("X", A.item("q", 0)),)), (), "parse", "full")
    yield ("kind:index-names-register", wrap((R, ("map", "b", "q")), (A.gate("X", A.item("q", "b")),)), (), "parse", "full")
    mac = A.macro("mp", ("p",), A.seq(A.gate("X", A.item("p", 0))))
    for arg, lab in ((1, "number"), (A.item("q", 0), "qubit"), ("s", "single-alias"), ("a", "let"), ("q", "register")):
        yield ("kind:param-indexed:%s" % lab, wrap((L, R, S), (A.gate("mp", arg),), (mac,)), (), "macro", "full")
    mac2 = A.macro("mq", ("p",), A.seq(A.gate("X", "p")))
    for arg, lab in ((1, "number"), (0.5, "float"), (A.item("q", 1), "qubit"), ("s", "single-alias"), ("a", "let"), ("q", "register")):
        yield ("kind:param-as-qubit:%s" % lab, wrap((L, R, S), (A.gate("mq", arg),), (mac2,)), (), "macro", "full")
    mac3 = A.macro("mt", ("p",), A.seq(A.gate("Rz", A.item("q", 0), "p")))
    for arg, lab in ((1, "number"), (0.5, "float"), (A.item("q", 1), "qubit"), ("a", "let"), ("q", "register")):
        yield ("kind:param-as-angle:%s" % lab, wrap((L, R, S), (A.gate("mt", arg),), (mac3,)), (), "macro", "full")


def name_cases():
    R = ("register", "q", 2)
    g = A.gate("X", A.item("q", 0))
    # undefined names in every position
    yield ("name:undefined-index-array", wrap((R,), (A.gate("X", A.item("u", 0)),)), (), "parse", "full")
    yield ("name:undefined-arg", wrap((R,), (A.gate("X", "u"),)), (), "parse", "full")
    yield ("name:undefined-index", wrap((R,), (A.gate("X", A.item("q", "u")),)), (), "parse", "full")
    yield ("name:undefined-map-source", wrap((R, ("map", "a", "u")), (g,)), (), "parse", "full")
    yield ("name:undefined-map-index", wrap((R, ("map", "a", "q", "u")), (g,)), (), "parse", "full")
    yield ("name:undefined-slice-bound", wrap((R, ("map", "a", "q", "u", 2, None)), (g,)), (), "parse", "full")
    yield ("name:undefined-register-size", wrap((("register", "q", "u"),), (g,)), (), "parse", "full")
    yield ("name:undefined-loop-count", wrap((R,), (A.loop("u", A.seq(g)),)), (), "parse", "full")
    yield ("name:map-before-source", wrap((("map", "a", "q"), R), (g,)), (), "parse", "full")
    # doubly defined: all ordered pairs of declaration kinds with one name
    decls = {
        "let": lambda n: ("let", n, 1),
        "map-whole": lambda n: ("map", n, "q"),
        "map-single": lambda n: ("map", n, "q", 0),
        "map-slice": lambda n: ("map", n, "q", 0, 1, None),
    }
    for (k1, d1), (k2, d2) in itertools.product(decls.items(), repeat=2):
        yield ("name:duplicate:%s+%s" % (k1, k2), wrap((R, d1("d"), d2("d")), (g,)), (), "parse", "full")
    for k1, d1 in decls.items():
        yield ("name:duplicate:register+%s" % k1, wrap((R, d1("q")), (g,)), (), "parse", "full")
        if k1 == "let":
            yield ("name:duplicate:%s+register" % k1, wrap((d1("q"), R), (g,)), (), "parse", "full")
    m = A.macro("mm", ("p",), A.seq(A.gate("X", "p")))
    yield ("name:duplicate-macro", wrap((R,), (A.gate("mm", A.item("q", 0)),), (m, m)), (), "parse", "full")
    yield ("name:macro-named-like-native", wrap((R,), (g,), (A.macro("X", ("p",), A.seq(A.gate("H", "p"))),)), (), "parse", "full")
    yield ("name:call-before-definition", A.prog((R,), (A.gate("prepare_all"), A.gate("mm", A.item("q", 0)), m, A.gate("measure_all"))), (), "parse", "full")


def gate_cases():
    R = ("register", "q", 3)
    L = ("let", "y", 0.5)
    args = {"qubit": A.item("q", 0), "qubit2": A.item("q", 1), "int": 2, "float": 0.5, "let": "y", "register": "q"}
    names = ("X", "G", "K", "L", "Z")
    for mode in MODES:
        if mode == "full":
            continue
        for name in names:
            for n in range(0, 4):
                for combo in itertools.product(sorted(args), repeat=n):
                    if n == 3 and combo[0] != "qubit":
                        continue
                    stmt = A.gate(name, *[args[c] for c in combo])
                    yield ("gate:%s:%s" % (mode, name), wrap((L, R), (stmt,)), (), "parse", mode)


RELOAD_VERSIONS = {
    # version name -> {gate: number of qubit parameters}
    "g1": {"G": 1},
    "g2": {"G": 2},
    "gk": {"G": 1, "K": 1},
    "none": {},
}


def reload_cases():
    """a relative pulse module whose file is rewritten between two parses in one process: the second parse must
    be judged against the gate table that is in the file THEN"""
    R = ("register", "q", 2)
    stmts = {"G1": A.gate("G", A.item("q", 0)), "G2": A.gate("G", A.item("q", 0), A.item("q", 1)), "K1": A.gate("K", A.item("q", 0))}
    for v1, v2 in itertools.permutations(RELOAD_VERSIONS, 2):
        for sname, st in stmts.items():
            yield ("reload:%s->%s:%s" % (v1, v2, sname), wrap((R,), (st,)), (), "parse", "reload:%s:%s" % (v1, v2))


def all_cases_list(tier="quick"):
    return itertools.chain(ref_cases(tier), kind_cases(), name_cases(), gate_cases(), reload_cases())


# ---------------------------------------------------------------- the pipeline
def program_text(p, mode):
    ups, _inj, _tab = MODES[mode]
    header = tuple(("usepulses", m) for m in ups) + p[1]
    return render.text(("prog", header, p[2]))


def run_pipeline(text, ovd, mode):
    """-> (index of the stage that rejected or 4, exception or None, artefacts)"""
    ups, inj, _tab = MODES[mode]
    kw = {}
    if inj == "full":
        kw["inject_pulses"] = gates.native_gates()
    elif inj:
        kw["inject_pulses"] = injected_table()
    if ups:
        kw["autoload_pulses"] = True
    art = {}
    try:
        c = impl.parse(text, **kw)
        art["parsed"] = c
    except Exception as ex:  # noqa: BLE001
        return 0, ex, art
    try:
        f = impl.fill_in_let(c, ovd or None)
        art["filled"] = f
    except Exception as ex:  # noqa: BLE001
        return 1, ex, art
    try:
        e = impl.expand_macros(f)
        art["expanded"] = e
    except Exception as ex:  # noqa: BLE001
        return 2, ex, art
    try:
        with fuel(400000):
            r = impl.run_jaqal_circuit(e)
        art["result"] = r
    except OutOfFuel as ex:
        return 3, ex, art
    except Exception as ex:  # noqa: BLE001
        return 3, ex, art
    return 4, None, art


class C14(Check):
    id = "C14"
    nshards = 48
    rule = (
        "product-exhaustive: boundary values x reference positions x ways of arrival x register sizes; non-register "
        "targets; undefined / doubly defined names; gate name x arity 0-3 x argument kinds x 8 native-gate situations; "
        "non-trivial = the model finds a reference that cannot be honoured; distinct by (text, override, situation)"
    )
    assumptions = (
        "deadline stages: literal -> parse; let / override -> fill_in_let; macro substitution -> expand_macros; rejection may come earlier",
        "empty aliases, slice bounds that name a position outside while every element lies inside, zero steps, non-positive register "
        "sizes and negative counts are not spoken of by the property: such programs are enumerated but not judged",
        "integral floats (1.0) arriving through a let or a macro argument may be accepted as the integer or rejected",
    )

    def bounds(self, tier):
        return {"register_sizes": [1, 2, 3, 4] if tier == "quick" else [1, 2, 3, 4, 5, 6],
                "values": "{-2,-1,0,1,size-1,size,size+1,0.5,1.0}" + ("" if tier == "quick" else " + {-3,size-2,size+2,2*size}"), "gate_arity": [0, 3],
                "native_situations": len(MODES)}

    def all_cases(self, tier):
        seen = set()
        for label, p, ov, deadline, mode in all_cases_list(tier):
            key = (render.text(p), ov, mode)
            if key in seen:
                continue
            seen.add(key)
            yield (label, p, ov, deadline, mode)

    def show(self, case):
        label, p, ov, deadline, mode = case
        if mode.startswith("reload:"):
            return {"family": label, "text": render.text(p), "pulse_file_versions": mode}
        return {"family": label, "text": program_text(p, mode), "override": dict(ov), "natives": mode, "deadline": deadline}

    def shrink(self, case):
        label, p, ov, deadline, mode = case
        for i in range(len(ov)):
            yield (label, p, ov[:i] + ov[i + 1:], deadline, mode)
        for cand in A.shrink_program(p):
            yield (label, cand, ov, deadline, mode)

    def run_reload(self, case, ctx):
        import shutil
        import tempfile

        label, p, _ov, _deadline, mode = case
        _, v1, v2 = mode.split(":")
        text = render.text(("prog", (("usepulses", ".rlmod"),) + p[1], p[2]))
        d = tempfile.mkdtemp(prefix="c14_reload_")
        try:
            os.makedirs(os.path.join(d, "rlmod"))
            open(os.path.join(d, "rlmod", "__init__.py"), "w").close()
            for step, ver in enumerate((v1, v2)):
                table = {"prepare_all": (), "measure_all": (), "X": ("q",)}
                table.update({g: ("q",) * k for g, k in RELOAD_VERSIONS[ver].items()})
                src = ["# version %s %s" % (ver, "#" * (7 * step + len(ver))),
                       "import numpy as np",
                       "from jaqalpaq.core import GateDefinition, Parameter, ParamType",
                       "from jaqalpaq.core.gatedef import BusyGateDefinition",
                       "def _u(k):",
                       "    return lambda: np.eye(2 ** k, dtype=complex)",
                       "_D = [BusyGateDefinition('prepare_all'), BusyGateDefinition('measure_all'),",
                       "      GateDefinition('X', [Parameter('q', ParamType.QUBIT)], ideal_unitary=_u(1))]"]
                for g, k in RELOAD_VERSIONS[ver].items():
                    src.append("_D.append(GateDefinition(%r, [Parameter('p%%d' %% i, ParamType.QUBIT) for i in range(%d)], ideal_unitary=_u(%d)))" % (g, k, k))
                src.append("ALL_GATES = {d.name: d for d in _D}")
                with open(os.path.join(d, "rlmod", "jaqal_gates.py"), "w") as f:
                    f.write("\n".join(src) + "\n")
                model = Model(p, table)
                try:
                    model.den()
                    verdict = "valid"
                except Invalid as e:
                    verdict = e.reason
                ctx.trace()
                ctx.transition()
                try:
                    c = impl.parse(text, autoload_pulses=True, import_path=d)
                    got = "accepted"
                except impl.JaqalError:
                    got = "rejected"
                except Exception as ex:  # noqa: BLE001
                    got = "crash:" + type(ex).__name__
                ctx.state(("reload", ver, verdict, got))
                if verdict != "valid" and got == "accepted":
                    ctx.outcome("ACCEPTED-invalid-after-reload")
                    ctx.fail("accepted", "pulse file version %s (parse %d in this process): the model finds %s, but the program was accepted" % (ver, step + 1, verdict))
                    return
                if verdict != "valid" and got.startswith("crash"):
                    ctx.fail("not-a-JaqalError", "pulse file version %s: %s" % (ver, got))
                    return
                if verdict == "valid" and got == "accepted":
                    ng = c.native_gates
                    for name, kinds in table.items():
                        if name not in ng or len(ng[name].parameters) != len(kinds):
                            ctx.fail("precedence", "after the pulse file was rewritten to version %s, gate %s in force does not match the file" % (ver, name))
                            return
            ctx.outcome("reload")
        finally:
            shutil.rmtree(d, ignore_errors=True)

    def run_case(self, case, ctx):
        label, p, ov, deadline, mode = case
        if mode.startswith("reload:"):
            return self.run_reload(case, ctx)
        ovd = dict(ov)
        text = program_text(p, mode)
        table = MODES[mode][2]
        model = Model(p, table)
        try:
            want = model.den(ovd)
            verdict = "valid"
        except Invalid as e:
            want = None
            verdict = e.reason
            if verdict == "empty-alias" and _indexes(p, e.detail):
                # declaring an empty alias is spoken of by no property, but an index INTO one lies outside 0..size-1
                # of the alias it indexes, whatever its value
                verdict = "out-of-range"
        integral_float = any(isinstance(x, float) and x == int(x) for x in _values(p, ovd))
        ctx.trace()
        stage, exc, art = run_pipeline(text, ovd, mode)
        ctx.transition(min(stage + 1, 4))
        ctx.state((label.split(":")[0], verdict, stage))
        if verdict != "valid":
            if verdict not in JUDGED:
                ctx.outcome("unjudged:" + verdict)
                return
            ctx.nontriv((text, ov, mode))
            if stage == 4:
                ctx.outcome("ACCEPTED-invalid")
                ctx.fail("accepted", "the model finds %s, but the program ran and produced a result" % verdict)
                return
            if not isinstance(exc, impl.JaqalError):
                ctx.outcome("wrong-exception")
                ctx.fail("not-a-JaqalError", "the model finds %s; stage %s raised %s: %s" % (verdict, STAGES[stage], type(exc).__name__, exc))
                return
            if stage > STAGES.index(deadline):
                ctx.outcome("late")
                ctx.fail("rejected-late", "the model finds %s, known at %s, but JaqalError came only at %s: %s" % (
                    verdict, deadline, STAGES[stage], exc))
                return
            ctx.outcome("rejected@" + STAGES[stage])
            return
        # ---- model: valid
        if stage < 4:
            if not isinstance(exc, impl.JaqalError):
                # a valid program that crashes is not C14's business (C16 judges exception types)
                ctx.outcome("valid-but-%s@%s" % (type(exc).__name__, STAGES[stage]))
                ctx.count("valid_but_crashed")
                if stage == 3 and "expanded" in art:
                    got = abstraction.den(art["expanded"])
                    if got != want:
                        ctx.fail("resolved-differently", "model %r\nimplementation %r" % (want, got))
                return
            ctx.outcome("valid-rejected@" + STAGES[stage])  # no obligation
            ctx.count("valid_but_rejected")
            return
        ctx.outcome("accepted")
        got = abstraction.den(art["expanded"])
        if got != want:
            ctx.fail("resolved-differently", "accepted, but the gates act on other operands than the model's:\nmodel %r\nimplementation %r" % (want, got))
        if table is not None:
            ng = art["parsed"].native_gates
            for name, kinds in table.items():
                d = ng.get(name)
                if d is None or len(d.parameters) != len(kinds):
                    ctx.fail("precedence", "gate %s in force has %s parameters, the precedence rule selects %d" % (
                        name, None if d is None else len(d.parameters), len(kinds)))
                    break
            extra = set(ng) - set(table)
            if extra:
                ctx.fail("precedence", "unexpected native gates %r" % sorted(extra))


def _indexes(p, name):
    """does some gate argument of the program index the register / alias `name`"""
    for st in p[2]:
        for node in A.walk(st):
            if node[0] == "gate" and any(isinstance(a, tuple) and a[0] == "item" and a[1] == name for a in node[2]):
                return True
    return False


def _values(p, ovd):
    for h in p[1]:
        for x in h[2:]:
            yield x
    for v in ovd.values():
        yield v
    for s in p[2]:
        for n in A.walk(s):
            if n[0] == "gate":
                for a in n[2]:
                    yield a


CHECK = C14()

if __name__ == "__main__":
    from collections import Counter
    c = Counter(l.split(":")[0] for l, *_ in CHECK.all_cases("quick"))
    print(c, sum(c.values()))
