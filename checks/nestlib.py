"""Helpers shared by checks/c08.py and checks/c12.py (nests of wrappers over bracket leaves).

* lazy, deterministic, simplest-first enumeration of TreeGrammar forests that never
  materialises the largest size class;
* generic delta-debugging candidates for such forests;
* a worker-side, memoised, *deterministic* greedy shrinker.  The framework shrinks every
  recorded failure serially in the parent; with a defect that hits tens of thousands of cases
  (a hang costs its whole fuel budget per run) that would take hours.  Each worker therefore
  reduces its own failures and reports them with `ctx.fail(..., case=minimal)`; identical
  minima then cost the parent nothing.  The reduction is a pure function of (clause, case):
  candidates are tried in a fixed order and the memo only caches `run_case` verdicts, so the
  reported identities do not depend on sharding, process count or seed.
"""
import itertools

from mc.combi import compositions


# ------------------------------------------------------------------ enumeration
def lazy_trees(g, n, ctx):
    """single trees with exactly n nodes, generated lazily (same order as g.trees)"""
    if n < 1:
        return
    for kind, variants, mode, cctx in g.rules[ctx]:
        if callable(cctx):
            cctx = cctx(ctx)
        if mode == "leaf":
            if n == 1:
                for v in variants:
                    yield (kind, v)
        elif mode == "one":
            for ch in lazy_trees(g, n - 1, cctx):
                for v in variants:
                    yield (kind, v, ch)
        else:
            for f in lazy_forests(g, n - 1, cctx):
                for v in variants:
                    yield (kind, v, f)


def lazy_forests(g, n, ctx):
    """all forests with exactly n nodes; only size classes < n are memoised (inside g)"""
    if n == 0:
        yield ()
        return
    for k in range(1, n + 1):
        if k == 1:
            for t in lazy_trees(g, n, ctx):
                yield (t,)
            continue
        for comp in compositions(n, k):
            pools = [g.trees(c, ctx) for c in comp]
            if all(pools):
                yield from itertools.product(*pools)


def count_nodes(forest):
    return sum(1 + (count_nodes(t[2]) if len(t) == 3 else 0) for t in forest)


def leaves(forest):
    for t in forest:
        if len(t) == 3:
            yield from leaves(t[2])
        else:
            yield t


def walk(forest):
    for t in forest:
        yield t
        if len(t) == 3:
            yield from walk(t[2])


# ------------------------------------------------------------------ shrinking
def forest_shrinks(f, simpler):
    """Candidates strictly simpler than forest f: delete a tree, hoist the children of a
    wrapper, simplify a node in place (`simpler(node)` yields replacement nodes), the same
    inside every wrapper.  Outermost and most drastic first."""
    for i in range(len(f)):
        yield f[:i] + f[i + 1:]
    for i, t in enumerate(f):
        if len(t) == 3:
            yield f[:i] + tuple(t[2]) + f[i + 1:]
    for i, t in enumerate(f):
        for v in simpler(t):
            yield f[:i] + (v,) + f[i + 1:]
    for i, t in enumerate(f):
        if len(t) == 3:
            for sub in forest_shrinks(tuple(t[2]), simpler):
                yield f[:i] + ((t[0], t[1], sub),) + f[i + 1:]


class Collector:
    """Stands in for the framework's Ctx: forwards the counters, keeps the failures so that the
    caller can reduce them before reporting."""

    def __init__(self, ctx=None):
        self.ctx = ctx
        self.fails = []

    def fail(self, clause, detail="", case=None):
        self.fails.append((clause, str(detail)))

    def __getattr__(self, name):
        if name in ("state", "transition", "trace", "outcome", "nontriv", "count"):
            if self.ctx is None:
                return lambda *a, **k: None
            return getattr(self.ctx, name)
        raise AttributeError(name)


def run_and_reduce(check, shrinker, case, ctx):
    """evaluate `case`, then report each failed clause with the locally reduced case"""
    col = Collector(ctx)
    check.evaluate(case, col)
    seen = set()
    for clause, detail in col.fails:
        if clause in seen:
            continue
        seen.add(clause)
        ctx.fail(clause, detail, case=shrinker.minimise(clause, case))


class LocalShrinker:
    """Deterministic greedy reduction run inside the worker (see module docstring).

    check.evaluate(case, ctx) must do the whole judgement of one case and report failures
    through ctx.fail *without* refinement; check.shrink(case) yields legal candidates."""

    MAX_MEMO = 200000

    def __init__(self, check, max_steps=600):
        self.check = check
        self.max_steps = max_steps
        self._verdict = {}
        self._min = {}

    def failing(self, case):
        v = self._verdict.get(case)
        if v is None:
            col = Collector()
            import numpy

            numpy.random.seed(0)
            self.check.evaluate(case, col)
            v = frozenset(c for c, _d in col.fails)
            if len(self._verdict) > self.MAX_MEMO:
                self._verdict.clear()
            self._verdict[case] = v
        return v

    WORK = [0]  # candidate evaluations spent on minimising in this process
    WORK_CAP = 60000  # beyond this, failing cases are reported unreduced (mass failures; the runner caps as well)

    def minimise(self, clause, case):
        key = (clause, case)
        got = self._min.get(key)
        if got is not None:
            return got
        if self.WORK[0] > self.WORK_CAP:
            return case
        path = [key]
        cur = case
        steps = 0
        improved = True
        while improved and steps < self.max_steps:
            improved = False
            known = self._min.get((clause, cur))
            if known is not None:
                cur = known
                break
            for cand in self.check.shrink(cur):
                steps += 1
                self.WORK[0] += 1
                if steps > self.max_steps:
                    break
                if clause in self.failing(cand):
                    cur = cand
                    path.append((clause, cur))
                    improved = True
                    break
        if len(self._min) > self.MAX_MEMO:
            self._min.clear()
        for k in path:
            self._min[k] = cur
        return cur
