#!/venv/bin/python
"""Entry point:  /venv/bin/python run.py <ID> --tier quick|thorough [--replay file]

Re-executes itself with PYTHONHASHSEED=0 so that enumeration order never depends on
hash randomisation, then hands over to mc.framework.
"""
import argparse
import os
import sys

HERE = os.path.dirname(os.path.abspath(__file__))


def main():
    ap = argparse.ArgumentParser()
    ap.add_argument("pid")
    ap.add_argument("--tier", default=os.environ.get("VERIF_TIER", "quick"), choices=["quick", "thorough"])
    ap.add_argument("--replay")
    ap.add_argument("--seed", type=int, default=None)
    args = ap.parse_args()
    if os.environ.get("PYTHONHASHSEED") != "0" or os.environ.get("OMP_NUM_THREADS") != "1":
        # one BLAS/OpenMP thread per worker process: the 16 workers already use every core
        env = dict(os.environ, PYTHONHASHSEED="0", OMP_NUM_THREADS="1", OPENBLAS_NUM_THREADS="1", MKL_NUM_THREADS="1")
        os.execve(sys.executable, [sys.executable] + sys.argv, env)
    os.chdir(HERE)
    sys.path.insert(0, HERE)
    seed = args.seed
    if seed is None:
        try:
            seed = int(os.environ.get("VERIF_SEED", "0"))
        except ValueError:
            seed = 0
    from mc import framework

    pid = args.pid.upper()
    if args.replay:
        sys.exit(framework.replay(pid, args.replay))
    sys.exit(framework.main(pid, args.tier, seed))


if __name__ == "__main__":
    main()
