#!/usr/bin/env python3
"""Regenerate MANIFEST.json from the table below (kept in one place so it stays valid)."""
import json, os

HERE = os.path.dirname(os.path.abspath(__file__))
PY = "/venv/bin/python"

CHECKS = {
    "C19": dict(
        text="Every legally nested seq/par/loop/subcircuit tree over uniquely labelled gates up to the node bound is "
             "normalised by the real pass and compared with a schedule oracle (time step of every gate instance, "
             "flatness, annotations, header data, rejection of loop-in-parallel). Exhaustive within the bound, "
             "so interactions of unequal branch lengths, empty blocks and nesting are all reached.",
        note="unit-time model as stated by the property; loop counts 1-2, node count <= 7 (quick) / 8 (thorough); "
             "the oracle is a 30-line schedule function applied to both sides",
        technique="bounded-exhaustive enumeration of block trees run on the real pass against a schedule model",
        ref="5/C19",
    ),
}

CHECKS.update({
    "C04": dict(
        text="Every program of a tree-exhaustive pool (<= N body nodes over 10 leaf statements, 5 macros covering parameters "
             "used as qubit / number / index / loop count / register / shadowing header names / passed on) and of the <= k-deviation "
             "neighbourhoods of a feature-rich base program is expanded by the real pass; the meaning read off the resulting IR "
             "(both readings of a macro call) must equal the reference interpreter's call-by-substitution denotation; header data, "
             "definitions (preserve flag), legality of the generated text and the parser's expand_macro flag are checked too.",
        note="anonymous gates; node bound 3-5 and deviation bound 2 (quick) / 3 (thorough); the reference interpreter (mc/ref/meaning.py) "
             "and the IR reader (mc/ref/abstraction.py, public attributes only) are the trusted base",
        technique="bounded-exhaustive program enumeration; real pass vs reference interpreter (denotation equality)",
        ref="5/C04",
    ),
    "C15": dict(
        text="Product-exhaustive: every register size 1-4 (5), every outcome, every H-subset preparation, every hardware output list up to "
             "length 2 (3) as int and as string, and every small perturbation of probability vectors pushed through a one-line backend; "
             "all views (by_int, by_str, readout as_int/as_str, relative frequencies) compared with an independent little-endian oracle.",
        note="register size <= 4 (quick) / 5 (thorough); perturbations below CUTOFF_FAIL; numpy seeded",
        technique="product-exhaustive enumeration of outcomes/views on the real result classes against an independent bit-order oracle",
        ref="5/C15",
    ),
    "C18": dict(
        text="Product-exhaustive over gate signatures (5 kinds, arity 0-2 (3)), 14 argument values in every position, argument lists of "
             "arity-1..arity+1, positional / keyword / mixed / unknown / missing keyword forms; every ordered non-empty subset of a gate pool "
             "through add_idle_gates and stretched_gates; idle gates emulated in every position, stretched unitaries compared with the parent's.",
        note="value alphabet excludes bool/NaN/inf; an untyped name fits every kind; mixed positional+keyword may be rejected",
        technique="product-exhaustive enumeration of signatures x argument lists on the real gate-definition code against a kind-rule oracle",
        ref="5/C18",
    ),
})

CHECKS.update({
    "C01": dict(
        text="Four exhaustive spaces - a structured literal alphabet (ints of all magnitudes/signs, floats m*10^e for e in -30..30, +-0.0, "
             "denormal min, float max) in every literal position; the 27 slice shapes x alias chains x register/usepulses variants; the "
             "tree-exhaustive program pool; <= k-deviation neighbourhoods - each built from text and through build(); generate -> parse must "
             "give an equal circuit (both directions of ==), the same symbolic form and denotation as the reference model, and byte-identical "
             "text on the second generation.",
        note="finite numbers only; fixed identifier vocabulary; numbers compared by value; model = mc/ref/meaning.py, IR read through public attributes",
        technique="bounded-exhaustive enumeration of literals/headers/program trees; generator+parser round trip vs reference model",
        ref="5/C01",
    ),
    "C05": dict(
        text="(program, override) pairs: pool programs x ALL override dictionaries over the declared constants (ints {0,1,2,3}, floats "
             "{0.25,-1.5,2}) and neighbourhood programs x an override menu; the real fill_in_let result must contain no reachable Constant "
             "(following the object references the IR holds), denote exactly what the reference interpreter computes in env(override) by the "
             "object route and by generate->parse, keep macros/native gates/usepulses/constants, and agree with parse(expand_let=True, override_dict).",
        note="integer-position constants overridden by ints only; pairs the model deems invalid are C14's; bounds: pool <= 3 (4) nodes, 2 deviations",
        technique="bounded-exhaustive enumeration of programs x override dictionaries; real pass vs reference interpreter in the chosen environment",
        ref="5/C05",
    ),
})

NOT_YET = {}


def main():
    props = [json.loads(l)["id"] for l in open(os.path.join(HERE, "properties.jsonl"))]
    checks = []
    for pid in props:
        if pid not in CHECKS:
            continue
        c = CHECKS[pid]
        checks.append({
            "property_id": pid,
            "quick_cmd": "%s run.py %s --tier quick" % (PY, pid),
            "thorough_cmd": "%s run.py %s --tier thorough" % (PY, pid),
            "evidence_file": "/verif/evidence/%s.json" % pid,
            "replay_cmd_template": "%s run.py %s --replay {path}" % (PY, pid),
            "engine": "mc-explorer",
            "level_claimed": {"category": "model_checking", "text": c["text"], "design_ref": "DESIGN.md section " + c["ref"]},
            "level_note": c["note"],
            "technique": c["technique"],
        })
    na = [{"property_id": pid, "reason": NOT_YET.get(pid, "check not built yet in this session (claimed in DESIGN.md; to be added)")}
          for pid in props if pid not in CHECKS]
    man = {
        "version": 1,
        "setup_cmd": "%s selftest/setup.py" % PY,
        "hooks": {
            "guard": "JAQALPAQ_VERIF",
            "enable": "no source hooks are needed: checks drive public entry points of /repo/src directly (sys.path[0]) and bound execution with a sys.monitoring fuel meter",
            "baseline_off_cmd": "cd /repo && /venv/bin/python -m pytest -ra -q -p no:cacheprovider --timeout=900 --continue-on-collection-errors",
            "source_commits": [],
            "add_only": True,
        },
        "engines": [{
            "name": "mc-explorer",
            "path": "/verif/mc",
            "serves_properties": [c["property_id"] for c in checks],
            "kind_free_text": "hand-rolled explicit-state / bounded-exhaustive explorer in Python running the real jaqalpaq code "
                              "against the RefJaqal reference model (mc/ref); 16-way sharding; deterministic fuel meter",
        }],
        "checks": checks,
        "not_applicable": na,
        "notes": "All checks rebuild nothing: they import /repo/src of the current working tree. Known findings: /verif/KNOWN_FINDINGS.txt.",
    }
    with open(os.path.join(HERE, "MANIFEST.json"), "w") as f:
        json.dump(man, f, indent=1)
    print("MANIFEST.json: %d checks, %d not_applicable" % (len(checks), len(na)))


if __name__ == "__main__":
    main()
