#!/usr/bin/env python3
"""Regenerate MANIFEST.json from the table below (kept in one place so it stays valid)."""
import json, os

HERE = os.path.dirname(os.path.abspath(__file__))
PY = "/venv/bin/python"

CHECKS = {
    "C19": dict(
        text="Every legally nested seq/par/loop/subcircuit tree over uniquely labelled gates up to the node bound is "
             "normalised by the real pass and compared with a schedule oracle (time step of every gate instance, "
             "flatness, annotations, header data, rejection of loop-in-parallel). Exhaustive within the bound, "
             "so interactions of unequal branch lengths, empty blocks and nesting are all reached.",
        note="unit-time model as stated by the property; loop counts 1-2, node count <= 7 (quick) / 8 (thorough); "
             "the oracle is a 30-line schedule function applied to both sides",
        technique="bounded-exhaustive enumeration of block trees run on the real pass against a schedule model",
        ref="5/C19",
    ),
}

NOT_YET = {}


def main():
    props = [json.loads(l)["id"] for l in open(os.path.join(HERE, "properties.jsonl"))]
    checks = []
    for pid in props:
        if pid not in CHECKS:
            continue
        c = CHECKS[pid]
        checks.append({
            "property_id": pid,
            "quick_cmd": "%s run.py %s --tier quick" % (PY, pid),
            "thorough_cmd": "%s run.py %s --tier thorough" % (PY, pid),
            "evidence_file": "/verif/evidence/%s.json" % pid,
            "replay_cmd_template": "%s run.py %s --replay {path}" % (PY, pid),
            "engine": "mc-explorer",
            "level_claimed": {"category": "model_checking", "text": c["text"], "design_ref": "DESIGN.md section " + c["ref"]},
            "level_note": c["note"],
            "technique": c["technique"],
        })
    na = [{"property_id": pid, "reason": NOT_YET.get(pid, "check not built yet in this session (claimed in DESIGN.md; to be added)")}
          for pid in props if pid not in CHECKS]
    man = {
        "version": 1,
        "setup_cmd": "%s selftest/setup.py" % PY,
        "hooks": {
            "guard": "JAQALPAQ_VERIF",
            "enable": "no source hooks are needed: checks drive public entry points of /repo/src directly (sys.path[0]) and bound execution with a sys.monitoring fuel meter",
            "baseline_off_cmd": "cd /repo && /venv/bin/python -m pytest -ra -q -p no:cacheprovider --timeout=900 --continue-on-collection-errors",
            "source_commits": [],
            "add_only": True,
        },
        "engines": [{
            "name": "mc-explorer",
            "path": "/verif/mc",
            "serves_properties": [c["property_id"] for c in checks],
            "kind_free_text": "hand-rolled explicit-state / bounded-exhaustive explorer in Python running the real jaqalpaq code "
                              "against the RefJaqal reference model (mc/ref); 16-way sharding; deterministic fuel meter",
        }],
        "checks": checks,
        "not_applicable": na,
        "notes": "All checks rebuild nothing: they import /repo/src of the current working tree. Known findings: /verif/KNOWN_FINDINGS.txt.",
    }
    with open(os.path.join(HERE, "MANIFEST.json"), "w") as f:
        json.dump(man, f, indent=1)
    print("MANIFEST.json: %d checks, %d not_applicable" % (len(checks), len(na)))


if __name__ == "__main__":
    main()
