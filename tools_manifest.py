#!/usr/bin/env python3
"""Regenerate MANIFEST.json from the table below (kept in one place so it stays valid)."""
import json, os

HERE = os.path.dirname(os.path.abspath(__file__))
PY = "/venv/bin/python"

CHECKS = {
    "C19": dict(
        text="Every legally nested seq/par/loop/subcircuit tree over uniquely labelled gates up to the node bound is "
             "normalised by the real pass and compared with a schedule oracle (time step of every gate instance, "
             "flatness, annotations, header data, rejection of loop-in-parallel). Exhaustive within the bound, "
             "so interactions of unequal branch lengths, empty blocks and nesting are all reached.",
        note="unit-time model as stated by the property; loop counts 1-2, node count <= 7 (quick) / 8 (thorough); "
             "the oracle is a 30-line schedule function applied to both sides",
        technique="bounded-exhaustive enumeration of block trees run on the real pass against a schedule model",
        ref="5/C19",
    ),
}

CHECKS.update({
    "C04": dict(
        text="Every program of a tree-exhaustive pool (<= N body nodes over 10 leaf statements, 5 macros covering parameters "
             "used as qubit / number / index / loop count / register / shadowing header names / passed on) and of the <= k-deviation "
             "neighbourhoods of a feature-rich base program is expanded by the real pass; the meaning read off the resulting IR "
             "(both readings of a macro call) must equal the reference interpreter's call-by-substitution denotation; header data, "
             "definitions (preserve flag), legality of the generated text and the parser's expand_macro flag are checked too.",
        note="anonymous gates; node bound 3-5 and deviation bound 2 (quick) / 3 (thorough); the reference interpreter (mc/ref/meaning.py) "
             "and the IR reader (mc/ref/abstraction.py, public attributes only) are the trusted base",
        technique="bounded-exhaustive program enumeration; real pass vs reference interpreter (denotation equality)",
        ref="5/C04",
    ),
    "C15": dict(
        text="Product-exhaustive: every register size 1-4 (5), every outcome, every H-subset preparation, every hardware output list up to "
             "length 2 (3) as int and as string, and every small perturbation of probability vectors pushed through a one-line backend; "
             "all views (by_int, by_str, readout as_int/as_str, relative frequencies) compared with an independent little-endian oracle. "
             "Also boundary outcomes and H-masks on registers of 5-10 (12) qubits, gate lists written from the highest qubit down, and one job of "
             "the default backend executed three times plus a second job of the same backend object (every result obtained so far is judged again "
             "after each execution).",
        note="register size <= 4 (quick) / 5 (thorough); perturbations below CUTOFF_FAIL; numpy seeded",
        technique="product-exhaustive enumeration of outcomes/views on the real result classes against an independent bit-order oracle",
        ref="5/C15",
    ),
    "C18": dict(
        text="Product-exhaustive over gate signatures (5 kinds, arity 0-2 (3)), 14 argument values in every position, argument lists of "
             "arity-1..arity+1, positional / keyword / mixed / unknown / missing keyword forms; every ordered non-empty subset of a gate pool "
             "through add_idle_gates and stretched_gates; idle gates emulated in every position, stretched unitaries compared with the parent's.",
        note="value alphabet excludes bool/NaN/inf; an untyped name fits every kind; mixed positional+keyword may be rejected",
        technique="product-exhaustive enumeration of signatures x argument lists on the real gate-definition code against a kind-rule oracle",
        ref="5/C18",
    ),
})

CHECKS.update({
    "C01": dict(
        text="Four exhaustive spaces - a structured literal alphabet (ints of all magnitudes/signs, floats m*10^e for e in -30..30, +-0.0, "
             "denormal min, float max) in every literal position; the 27 slice shapes x alias chains x register/usepulses variants; the "
             "tree-exhaustive program pool; <= k-deviation neighbourhoods - each built from text and through build(); generate -> parse must "
             "give an equal circuit (both directions of ==), the same symbolic form and denotation as the reference model, and byte-identical "
             "text on the second generation.",
        note="finite numbers only; fixed identifier vocabulary; numbers compared by value; model = mc/ref/meaning.py, IR read through public attributes",
        technique="bounded-exhaustive enumeration of literals/headers/program trees; generator+parser round trip vs reference model",
        ref="5/C01",
    ),
    "C05": dict(
        text="(program, override) pairs: pool programs x ALL override dictionaries over the declared constants (ints {0,1,2,3}, floats "
             "{0.25,-1.5,2}) and neighbourhood programs x an override menu; the real fill_in_let result must contain no reachable Constant "
             "(following the object references the IR holds), denote exactly what the reference interpreter computes in env(override) by the "
             "object route and by generate->parse, keep macros/native gates/usepulses/constants, and agree with parse(expand_let=True, override_dict).",
        note="integer-position constants overridden by ints only; pairs the model deems invalid are C14's; bounds: pool <= 3 (4) nodes, 2 deviations",
        technique="bounded-exhaustive enumeration of programs x override dictionaries; real pass vs reference interpreter in the chosen environment",
        ref="5/C05",
    ),
})

CHECKS.update({
    "C03": dict(
        text="Product-exhaustive: register size 1-3 (4), the gate alphabet {X, H, Rz, CX, A2, A3, I_X, N1} on EVERY ordered tuple of distinct "
             "qubits with two angles, all gate sequences of length <= 2 (3), each under every structural embedding (plain, loop, macro with "
             "qubit and angle parameters, alias of a strided alias, let with and without override, parallel block in both branch orders, "
             "subcircuit block, whole section in a loop), two subcircuits per program; the emulator's state vector and probabilities are "
             "compared with an independent dense simulator (own embedding of gate matrices with generic, pairwise distinct entries) and with "
             "a chained differential oracle from the emulator's own intermediate state. Wider registers: one gate on every ordered qubit tuple "
             "of 4-6 (5-7) qubits under every embedding, two gates on 4 (5) qubits under plain / alias / macro.",
        note="gate matrices are shared fixtures (mc/gates.py); the reference embedding/ordering (mc/ref/sim.py) and alias arithmetic are independent; 1e-9 tolerance",
        technique="product-exhaustive enumeration of gate sequences x qubit tuples x embeddings; emulator vs independent dense simulator",
        ref="5/C03",
    ),
    "C09": dict(
        text="Tree-exhaustive placements of subcircuit blocks (count none/literal/let), explicit prepare/measure sections, macros containing "
             "subcircuits and subcircuits containing loops, in sequential blocks and loops (0,1,2,let), under four native-gate situations; "
             "structural oracle (no subcircuit left in body or macro bodies, denotation equals the model's with sub -> prepare;B;measure, "
             "bounding definitions are the native / supplied ones, header unchanged) and behavioural oracle (same run_jaqal_circuit result and "
             "same parse_jaqal_output_list result for EVERY output list as the model-rewritten prepare/measure twin).",
        note="node bound 4 (quick) / 5 (thorough); output lists over {0..3} up to length 3; numpy seeded; fuel-bounded execution",
        technique="tree-exhaustive enumeration of subcircuit placements; real pass and emulator vs reference rewriting (differential twin)",
        ref="5/C09",
    ),
    "C10": dict(
        text="Explicit-state search: for every (program, override) the graph of circuits reachable by histories over {expand_subcircuits, "
             "fill_in_let(ov), expand_macros, expand_macros(preserve), fill_in_map} is explored breadth-first to depth 4 (5) with canonical-form "
             "deduplication; in every state the denotation must equal the reference model's, re-applying the last pass must give an equal "
             "circuit and identical text, and the generated text must parse back with the same meaning; the parser's expand flags must equal "
             "the corresponding compositions.",
        note="JaqalError = pass not applicable; fill_in_map only after fill_in_let when overrides are given; meaning modulo subcircuit == prepare..measure once expand_subcircuits is on the path; one known finding (nested expanded subcircuit block is not legal Jaqal)",
        technique="explicit-state BFS over pass histories on the real passes with canonical-form dedup; invariant = reference denotation",
        ref="5/C10",
    ),
    "C16": dict(
        text="Space 1: EVERY character string up to length 4 (5) over an 18 (23) character alphabet, alone and after 8 seed contexts, plus "
             "every single-character edit of 25 seed programs, through parse / header parse / autoload parse / emulation under a deterministic "
             "fuel budget: only JaqalError (JaqalParseError with a position for syntax errors) or ImportError may escape, nothing may hang. "
             "Space 2: state graph over call histories (13-19 calls, length <= 2 each in a fresh interpreter, length <= 3 (4) back to back in "
             "one process; calls include errors raised inside grammar actions, a header-only parse followed by the full parse of the same text, "
             "and emulations that share one gate table object over different alias slices): every call's outcome must equal its "
             "fresh-interpreter baseline wherever it occurs. Space 3: 7 frames x 12 runs of 64-300 layout / punctuation characters "
             "(unterminated comments, text before an illegal character), each parsed in a child process under a 60 s wall-clock limit.",
        note="emulation only for registers <= 5 qubits; exact positions are C02's; importlib.util deliberately not pre-imported in the history driver",
        technique="exhaustive enumeration of short character strings + explicit-state exploration of call histories against fresh-process baselines",
        ref="5/C16",
    ),
    "C17": dict(
        text="Tree-exhaustive programs over the features all three front ends express (lets, one register sized by literal or let, gates with "
             "number/let/qubit arguments, seq/par nesting, loops and subcircuits with literal or let counts) plus every combination of "
             "user-chosen and anonymous names from the auto-namer's own pattern; each AST is built as text, through build(), through the "
             "object-oriented builders (two styles) and through a generic @circuit Q-syntax function; circuits must be pairwise == both ways, "
             "structurally equal to the model, wrapped in prepare/measure exactly when the model says, and generated names fresh.",
        note="which fresh names are chosen is not judged (read back from the Q-syntax circuit); '{ }; prepare_all' leaves the wrap rule undecided and is not judged",
        technique="tree-exhaustive enumeration of programs x naming combinations; three front ends compared pairwise and with a structural model",
        ref="5/C17",
    ),
})

CHECKS.update({
    "C07": dict(
        text="One probe statement text (7 forms: the colliding names as argument, array name, array index, loop count, macro argument) is "
             "placed in every set of 2-3 scopes out of 6 (main body before/after the macros, macro whose parameter shadows the name, macro with "
             "other parameters, loop, parallel block) x 5 header bindings of the name x both textual orders; for each program and each of its "
             "single-deletion sub-programs the named references and the denotation read from the IR must equal the reference model's (also after "
             "expand_macros and fill_in_let, under both readings of a macro call) - so a statement's meaning cannot depend on unrelated statements.",
        note="anonymous gates; calls before a later macro definition are outside the space (the builder rejects them)",
        technique="exhaustive enumeration of scope placements x bindings; parser/builder vs reference lexical-scoping model (differential over deletions)",
        ref="5/C07",
    ),
    "C11": dict(
        text="Explicit-state exploration of call histories: for a feature-rich executable program and its valid single-site deviations, every "
             "history of length <= 2 (3) over 13 library calls (all passes, unit timing, used qubits, generation, emulation, output parsing, "
             "stretched/idle gate tables) is applied to ONE shared circuit object; after every call a deep structural snapshot of everything "
             "reachable from the circuit and the caller's gate table (attributes, containers, identities) must be unchanged and the result must "
             "equal that of the same call on a freshly parsed copy.",
        note="snapshot covers instance attributes of jaqalpaq objects, containers and numpy arrays; callables by identity; numpy seeded per call",
        technique="explicit-state search over call histories on one shared object; invariant = deep snapshot + fresh-copy result",
        ref="5/C11",
    ),
    "C20": dict(
        text="A pool of N = 800 (2000) parsed programs: ALL N^2 ordered pairs, plus every single-token mutant of every pool program from a "
             "mutation alphabet (gate name, number, index, counts, block kind, subcircuit, alias bound/source, let value, register size, macro "
             "parameters, usepulses, statement deleted/duplicated/swapped). ==/!= must be reflexive, symmetric and consistent; a circuit equals "
             "the re-parse of its text; equal circuits must have identical declarations and meaning per the reference model, hence every "
             "meaning-changing mutant must compare unequal both ways.",
        note="declarations/meaning judged by the reference model on the ASTs (numbers by value, slice defaults explicit); equal-meaning mutants carry no obligation",
        technique="exhaustive pairwise comparison over a program pool + exhaustive single-token mutants; __eq__ vs reference meaning",
        ref="5/C20",
    ),
})

CHECKS.update({
    "C02": dict(
        text="Token-level state-space search: from 16 seed prefixes (one per grammar context) EVERY viable token string of up to 5-6 (7) further "
             "tokens over a 24-token alphabet is generated with a hand-written pushdown recogniser (cross-checked against an independent Earley "
             "recogniser), and each prefix p, p.t for every token t, and p.close(p) is run through the real parser: accept <=> derivable, the "
             "S-expression equals the model's tree, rejection raises JaqalParseError at a token at or after the first offending one (or end of "
             "input). Plus every single-token deletion/duplication/swap/replacement of 40 pool programs, and every rendering of them with <= 2 (3) "
             "layout deviations (separator choice, blanks, //, /* */ comments incl. multi-line and adjacent); comment bodies incl. runs of * and /; "
             "literal variants in every literal position; one comment (bodies incl. \\r \\v \\f FS GS RS NEL LS PS) in every gap in front of the first "
             "offending token of every structural near miss (error positions must not move); a header-only parse before the full parse of each pool program.",
        note="branch/case, BININT, import-as, ',' and non-positive register sizes are outside the alphabet; end of input is always an acceptable error position",
        technique="explicit-state search over reference-parser configurations (token strings to a depth bound) replayed on the real parser; near-miss and layout enumeration",
        ref="5/C02",
    ),
    "C06": dict(
        text="Product-exhaustive alias chains: register size 1-4 (5), depth 1-2 (3), every link form (whole / single i / slice with lo, hi in "
             "{absent, 0..len}, st in {absent,1,2,3,-1}), literal and let spellings of the bounds, every index into the last link, four placements "
             "(top level, macro body, macro argument, indexing a register-valued parameter). The model's own index arithmetic gives (q, idx); "
             "resolve_qubit, fill_in_map, used-qubit analysis and the emulator (X and an asymmetric CX) must all agree with it.",
        note="only chains the model finds valid are judged (the rest is C14's); the pyGSTi generator refuses aliases and is not a consumer",
        technique="product-exhaustive enumeration of alias chains x indices x placements; four consumers vs independent index arithmetic",
        ref="5/C06",
    ),
    "C08": dict(
        text="Tree-exhaustive nests of loops (counts 0-3, let-valued with and without override), sequential blocks and subcircuits in both "
             "spellings, bounded by total node count, incl. sections that straddle a loop boundary; under a deterministic fuel budget the emulator "
             "must terminate and its readouts must be exactly the reference interpreter's visit sequence (subcircuit index per executed measure, "
             "flat-order numbering, per-subcircuit readouts and frequencies, non-zero-probability outcomes); parse_jaqal_output_list must attribute "
             "EVERY output list over {0..2^n-1} (int and string) of matching length to the same visits.",
        note="node bound 6 (7), at most 6 subcircuits; visit model = mc/ref/execute.py (cross-checked against a brute-force unrolled interpreter)",
        technique="tree-exhaustive enumeration of loop/subcircuit nests; emulator and output parser vs reference unrolled-execution model under a fuel bound",
        ref="5/C08",
    ),
    "C12": dict(
        text="Tree-exhaustive bodies over {prepare_all, measure_all, gate, subcircuit{gate}} and wrappers {loop 0/1/2, sequential block, "
             "single-branch parallel block, parameterless macro call} bounded by total node count; the acceptance predicate written literally from "
             "the statement decides each; the real discovery step (emulator job construction) and run_jaqal_circuit under fuel must accept exactly "
             "those, report the model's number of subcircuits, and reject the others with JaqalError.",
        note="node bound 6 (7) under legal nesting; message wording not judged",
        technique="tree-exhaustive enumeration of bracket placements; real subcircuit discovery vs acceptance predicate",
        ref="5/C12",
    ),
    "C13": dict(
        text="Exactness: every body statement and nested sub-statement of the tree-exhaustive program pool and of the neighbourhood of a native "
             "program (aliases, lets, macros with qubit/register/index parameters, busy and idle gates) - get_used_qubit_indices must equal the "
             "model's set. Collisions: every ordered 2- and 3-tuple of branch forms (1/2/3-qubit gates, sequential sub-blocks, macro calls, alias "
             "references, idle and unitary-less gates) in three placements - the emulator must raise JaqalError exactly when the model finds two "
             "intersecting branches, and accepted programs must have the reference simulator's state for every branch order.",
        note="bare statements with busy gates and unexpanded subcircuit blocks are read weakly (see assumptions); 3-qubit register for the collision space",
        technique="exhaustive enumeration of statements and of ordered branch tuples; used-qubit analysis and emulator vs denotation-based model",
        ref="5/C13",
    ),
    "C14": dict(
        text="Product-exhaustive: boundary values {-2,-1,0,size-1,size,size+1,0.5,1.0} x 8 reference positions x 6 ways of arrival (literal, let, "
             "override, macro argument, macro argument that is a let / overridden) x register sizes 1-3; non-register targets; undefined names in "
             "every position; all ordered pairs of declaration kinds sharing a name; gate name x arity 0-3 x argument kinds x 8 native-gate "
             "situations (none, injected, usepulses fixtures in both orders, injected + imported). Staged pipeline parse -> fill_in_let -> "
             "expand_macros -> run: an unhonourable reference must raise JaqalError no later than the stage where its value is concrete and never "
             "produce a result; accepted programs must resolve as the model says and use the definition the precedence rule selects.",
        note="empty aliases, odd-but-harmless bounds, zero steps, non-positive sizes, negative counts are enumerated but not judged; integral floats may be accepted or rejected",
        technique="product-exhaustive enumeration of references x arrival routes on the real staged pipeline vs reference validity model",
        ref="5/C14",
    ),
})

NOT_YET = {}


def main():
    props = [json.loads(l)["id"] for l in open(os.path.join(HERE, "properties.jsonl"))]
    checks = []
    for pid in props:
        if pid not in CHECKS:
            continue
        c = CHECKS[pid]
        checks.append({
            "property_id": pid,
            "quick_cmd": "%s run.py %s --tier quick" % (PY, pid),
            "thorough_cmd": "%s run.py %s --tier thorough" % (PY, pid),
            "evidence_file": "/verif/evidence/%s.json" % pid,
            "replay_cmd_template": "%s run.py %s --replay {path}" % (PY, pid),
            "engine": "mc-explorer",
            "level_claimed": {"category": "model_checking", "text": c["text"], "design_ref": "DESIGN.md section " + c["ref"]},
            "level_note": c["note"],
            "technique": c["technique"],
        })
    na = [{"property_id": pid, "reason": NOT_YET.get(pid, "check not built yet in this session (claimed in DESIGN.md; to be added)")}
          for pid in props if pid not in CHECKS]
    man = {
        "version": 1,
        "setup_cmd": "%s selftest/setup.py" % PY,
        "hooks": {
            "guard": "JAQALPAQ_VERIF",
            "enable": "no source hooks are needed: checks drive public entry points of /repo/src directly (sys.path[0]) and bound execution with a sys.monitoring fuel meter",
            "baseline_off_cmd": "cd /repo && /venv/bin/python -m pytest -ra -q -p no:cacheprovider --timeout=900 --continue-on-collection-errors",
            "source_commits": [],
            "add_only": True,
        },
        "engines": [{
            "name": "mc-explorer",
            "path": "/verif/mc",
            "serves_properties": [c["property_id"] for c in checks],
            "kind_free_text": "hand-rolled explicit-state / bounded-exhaustive explorer in Python running the real jaqalpaq code "
                              "against the RefJaqal reference model (mc/ref); 16-way sharding; deterministic fuel meter",
        }],
        "checks": checks,
        "not_applicable": na,
        "notes": "All checks rebuild nothing: they import /repo/src of the current working tree. Known findings: /verif/KNOWN_FINDINGS.txt.",
    }
    with open(os.path.join(HERE, "MANIFEST.json"), "w") as f:
        json.dump(man, f, indent=1)
    print("MANIFEST.json: %d checks, %d not_applicable" % (len(checks), len(na)))


if __name__ == "__main__":
    main()
