"""Bind to the jaqalpaq sources of /repo's *current working tree*.

Nothing is cached or built: /repo/src is forced to the front of sys.path and we
assert that the imported package really lives there.  Only public entry points are
re-exported; the checks never reach into private helpers of the implementation.
"""
import os
import sys

REPO = os.environ.get("VERIF_REPO", "/repo")
SRC = os.path.join(REPO, "src")
if SRC not in sys.path[:1]:
    sys.path.insert(0, SRC)

# the emulator must never try the IPC route
os.environ["JAQALPAQ_RUN_EMULATOR"] = "1"
os.environ.pop("JAQALPAQ_RUN_PORT", None)

import jaqalpaq.core as _core  # noqa: E402

assert os.path.realpath(_core.__file__).startswith(os.path.realpath(SRC) + os.sep), (
    "jaqalpaq imported from %s, expected under %s" % (_core.__file__, SRC)
)

from jaqalpaq.error import JaqalError  # noqa: E402
from jaqalpaq.parser import parse_jaqal_string  # noqa: E402
from jaqalpaq.parser.parser import parse_to_sexpression, parse_jaqal_string_header  # noqa: E402
from jaqalpaq.parser.slyparse import JaqalParseError  # noqa: E402
from jaqalpaq.generator import generate_jaqal_program  # noqa: E402
from jaqalpaq.core import (  # noqa: E402
    Circuit,
    BlockStatement,
    LoopStatement,
    GateStatement,
    GateDefinition,
    Macro,
    Constant,
    Parameter,
    ParamType,
    AnnotatedValue,
    Register,
    NamedQubit,
    CircuitBuilder,
)
from jaqalpaq.core.circuitbuilder import build  # noqa: E402
from jaqalpaq.core.gatedef import (  # noqa: E402
    BusyGateDefinition,
    IdleGateDefinition,
    add_idle_gates,
)
from jaqalpaq.core.stretch import stretched_gates  # noqa: E402
from jaqalpaq.core.algorithm import (  # noqa: E402
    expand_macros,
    expand_subcircuits,
    fill_in_let,
    get_used_qubit_indices,
    normalize_blocks_with_unitary_timing,
)
from jaqalpaq.core.algorithm.fill_in_map import fill_in_map  # noqa: E402
from jaqalpaq.core.result import parse_jaqal_output_list  # noqa: E402
from jaqalpaq.emulator import run_jaqal_circuit, run_jaqal_string  # noqa: E402
from jaqalpaq.emulator.unitary import UnitarySerializedEmulator  # noqa: E402  (the default backend of run_jaqal_circuit)


def parse(text, **kw):
    """parse_jaqal_string with autoload off unless asked otherwise."""
    kw.setdefault("autoload_pulses", False)
    return parse_jaqal_string(text, **kw)
