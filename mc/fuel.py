"""Deterministic step budget ("fuel") for implementation code.

A sys.monitoring tool counts backward jumps (loop iterations) and Python function
entries while the guarded region runs and raises OutOfFuel when the budget is spent.
The count depends only on the executed byte code, never on wall time, so the same
input always gives the same verdict.  OutOfFuel derives from BaseException so that
`except Exception` handlers inside the library cannot swallow it.
"""
import sys
from contextlib import contextmanager

_mon = sys.monitoring
TOOL = 4  # a free tool id (0..5); 4 is unused by debuggers/profilers/coverage


class OutOfFuel(BaseException):
    pass


class _State:
    left = 0
    used = 0
    active = False


_S = _State()


def _tick(*_a):
    _S.left -= 1
    if _S.left < 0:
        # stop counting, then raise into the monitored frame
        _mon.set_events(TOOL, 0)
        _S.active = False
        raise OutOfFuel()


_registered = False


def _ensure():
    global _registered
    if _registered:
        return
    try:
        _mon.use_tool_id(TOOL, "verif-fuel")
    except ValueError:
        pass
    ev = _mon.events
    _mon.register_callback(TOOL, ev.JUMP, _tick)
    _mon.register_callback(TOOL, ev.PY_START, _tick)
    _registered = True


@contextmanager
def fuel(budget):
    """Run the body with at most `budget` (backward jumps + calls)."""
    _ensure()
    if _S.active:  # no nesting: inner region shares the outer budget
        yield
        return
    _S.left = budget
    _S.active = True
    ev = _mon.events
    _mon.set_events(TOOL, ev.JUMP | ev.PY_START)
    try:
        yield
    finally:
        _mon.set_events(TOOL, 0)
        _S.used = budget - _S.left
        _S.active = False


def last_used():
    return _S.used
