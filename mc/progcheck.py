"""Base class for checks whose cases are programs from mc.ref.universe."""
from mc.framework import Check
from mc.ref import ast as A, render, universe as U


class ProgramCheck(Check):
    natives = None  # model-side native table (dict name -> kinds) or None
    base = U.BASE
    pool_shards = 32

    def specs(self, tier):
        if tier == "quick":
            return [
                dict(max_nodes=3, leaves=U.LEAVES),
                dict(max_nodes=4, min_nodes=4, leaves=U.LEAVES[:3], loops=(2, "n"), subs=(None, "n")),
            ]
        return [
            dict(max_nodes=3, leaves=U.LEAVES),
            dict(max_nodes=4, min_nodes=4, leaves=U.LEAVES[:5]),
            dict(max_nodes=5, min_nodes=5, leaves=U.LEAVES[3:5], loops=("n",), subs=("n",)),
        ]

    def nbhd_k(self, tier):
        return 2 if tier == "quick" else 3

    def roots(self):
        out = []
        seen = set()
        for _l, q in U.single_deviations(self.base):
            t = render.text(q)
            if t in seen or not U.valid(q, self.natives):
                continue
            seen.add(t)
            out.append(q)
        return out

    def shards(self, tier):
        sh = [("pool", r) for r in range(self.pool_shards)]
        sh += [("nbhd", i) for i in range(-1, len(self.roots()))]
        return sh

    def programs(self, tier, shard):
        kind, i = shard
        if kind == "pool":
            import itertools

            yield from itertools.islice(U.pool(self.specs(tier), self.natives), i, None, self.pool_shards)
        else:
            if i == -1:
                yield self.base
                return
            root = self.roots()[i]
            yield from U.neighbourhood(root, self.nbhd_k(tier) - 1, self.natives)

    def cases(self, tier, shard):
        return self.programs(tier, tuple(shard))

    def show(self, case):
        return render.text(case) if case and case[0] == "prog" else case

    def shrink(self, case):
        if not (case and case[0] == "prog"):
            return
        for cand in A.shrink_program(case):
            if U.valid(cand, self.natives):
                yield cand

    def bounds(self, tier):
        return {"pool": [{k: (len(v) if k == "leaves" else v) for k, v in s.items()} for s in self.specs(tier)],
                "neighbourhood_deviations": self.nbhd_k(tier)}
