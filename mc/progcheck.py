"""Base class for checks whose cases are programs from mc.ref.universe."""
from mc.framework import Check
from mc.ref import ast as A, render, universe as U


class ProgramCheck(Check):
    natives = None  # model-side native table (dict name -> kinds) or None
    base = U.BASE
    pool_shards = 32

    def specs(self, tier):
        if tier == "quick":
            return [
                dict(max_nodes=3, leaves=U.LEAVES),
                dict(max_nodes=4, min_nodes=4, leaves=U.LEAVES[:3], loops=(2, "n"), subs=(None, "n")),
            ]
        return [
            dict(max_nodes=3, leaves=U.LEAVES),
            dict(max_nodes=4, min_nodes=4, leaves=U.LEAVES[:5]),
            dict(max_nodes=5, min_nodes=5, leaves=U.LEAVES[3:5], loops=("n",), subs=("n",)),
        ]

    def extra_specs(self, tier):
        """the second leaf menu of the universe (register parameter indexed by a parameter, parameterless macros
        whose nested calls sit inside loops), in small trees of its own"""
        return U.extra_specs(tier)

    def nbhd_k(self, tier):
        return 2

    def bases(self, tier):
        """quick: the base program; thorough: a second base with other feature interactions as well
        (a third deviation would multiply the neighbourhood by ~100)"""
        if tier == "quick" or self.base is not U.BASE:
            return [self.base]
        return [self.base, U.BASE2]

    def roots(self, base=None):
        out = []
        seen = set()
        for _l, q in U.single_deviations(base if base is not None else self.base):
            t = render.text(q)
            if t in seen or not U.valid(q, self.natives):
                continue
            seen.add(t)
            out.append(q)
        return out

    def shards(self, tier):
        sh = [("pool", r) for r in range(self.pool_shards)]
        for b, base in enumerate(self.bases(tier)):
            sh += [("nbhd", i, b) for i in range(-1, len(self.roots(base)))]
        return sh

    def programs(self, tier, shard):
        kind, i = shard[0], shard[1]
        if kind == "pool":
            import itertools

            yield from itertools.islice(U.pool(self.specs(tier) + self.extra_specs(tier), self.natives), i, None, self.pool_shards)
        else:
            base = self.bases(tier)[shard[2]] if len(shard) > 2 else self.base
            if i == -1:
                yield base
                return
            root = self.roots(base)[i]
            yield from U.neighbourhood(root, self.nbhd_k(tier) - 1, self.natives)

    def cases(self, tier, shard):
        return self.programs(tier, tuple(shard))

    def show(self, case):
        return render.text(case) if case and case[0] == "prog" else case

    def shrink(self, case):
        if not (case and case[0] == "prog"):
            return
        for cand in A.shrink_program(case):
            if U.valid(cand, self.natives):
                yield cand

    def bounds(self, tier):
        return {"pool": [{k: (len(v) if k == "leaves" else v) for k, v in s.items()} for s in self.specs(tier) + self.extra_specs(tier)],
                "neighbourhood_deviations": self.nbhd_k(tier)}
