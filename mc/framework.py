"""Runner for bounded-exhaustive checks.

A check enumerates a finite space of *cases* (deterministically, simplest first), runs each
case on the real implementation and compares with the reference model.  The runner shards
the space over a process pool, collects counters for the evidence file, shrinks failures,
matches them against KNOWN_FINDINGS.txt and emits the verdict lines required by the task
interface:

    KNOWN-FINDING: property=<id> <what fails>
    VIOLATION property=<id> replay=<path>

Exit status: 0 silent / known findings only, 1 violation, 2 internal error.
"""
import hashlib
import itertools
import json
import multiprocessing
import os
import sys
import time
import traceback
from collections import Counter

VERIF = os.path.dirname(os.path.dirname(os.path.abspath(__file__)))
NPROC = int(os.environ.get("VERIF_NPROC", "16"))


def tup(x):
    """JSON lists back to the nested tuples cases are made of."""
    if isinstance(x, (list, tuple)):
        return tuple(tup(v) for v in x)
    return x


def jsonable(x):
    if isinstance(x, (list, tuple)):
        return [jsonable(v) for v in x]
    if isinstance(x, dict):
        return {str(k): jsonable(v) for k, v in x.items()}
    if isinstance(x, (str, int, float, bool)) or x is None:
        return x
    return repr(x)


def canon(x):
    return json.dumps(jsonable(x), sort_keys=True, separators=(",", ":"))


def h64(x):
    if not isinstance(x, (str, bytes)):
        x = canon(x)
    if isinstance(x, str):
        x = x.encode()
    return int.from_bytes(hashlib.blake2b(x, digest_size=8).digest(), "big")


class Ctx:
    """Per-shard accumulator handed to Check.run_case."""

    MAX_FAIL_PER_CLAUSE = 400

    def __init__(self):
        self.evaluations = 0
        self.traces = 0  # executions on the implementation
        self.states = set()
        self.transitions = 0
        self.outcomes = Counter()
        self.nontrivial = set()
        self.failures = []  # (clause, case, detail)
        self.origins = []  # (shard, ordinal of the enumerated case) for each failure
        self.fail_counts = Counter()
        self.samples = []
        self.extra = Counter()
        self._case = None
        self._shard = None
        self._index = -1

    # -- called by checks --------------------------------------------------------
    def fail(self, clause, detail="", case=None):
        self.fail_counts[clause] += 1
        if self.fail_counts[clause] <= self.MAX_FAIL_PER_CLAUSE:
            self.failures.append((clause, case if case is not None else self._case, str(detail)[:2000]))
            self.origins.append((self._shard, self._index))

    def state(self, key):
        self.states.add(h64(key))

    def transition(self, n=1):
        self.transitions += n

    def trace(self, n=1):
        self.traces += n

    def outcome(self, key):
        self.outcomes[key if isinstance(key, str) else canon(key)] += 1

    def nontriv(self, key):
        self.nontrivial.add(h64(key))

    def count(self, key, n=1):
        self.extra[key] += n


class Check:
    """Base class; subclasses define the alphabet, the bound and the oracle."""

    id = "C00"
    level = "model_checking"
    nshards = 64
    rule = ""
    assumptions = ()
    exhaustive = True

    # enumeration ---------------------------------------------------------------
    def shards(self, tier):
        return list(range(self.nshards))

    def all_cases(self, tier):
        raise NotImplementedError

    def cases(self, tier, shard):
        return itertools.islice(self.all_cases(tier), shard, None, self.nshards)

    # execution -----------------------------------------------------------------
    def run_case(self, case, ctx):
        raise NotImplementedError

    def shrink(self, case):
        """Yield strictly simpler candidate cases (optional)."""
        return ()

    def show(self, case):
        return jsonable(case)

    def describe(self, clause, case):
        """One-line human description of a failure identity."""
        return "clause=%s input=%s" % (clause, canon(self.show(case)))

    def bounds(self, tier):
        return {}

    def selfcheck(self):
        """Model self-consistency; raise to signal an INTERNAL error."""


def load_check(pid):
    import importlib

    sys.path.insert(0, VERIF)
    mod = importlib.import_module("checks.%s" % pid.lower())
    return mod.CHECK


# ------------------------------------------------------------------------------ workers
_G = {}


def _init_worker(pid, tier, seed):
    _G["check"] = load_check(pid)
    _G["tier"] = tier
    _G["seed"] = seed


def _run_shard(shard):
    check, tier, seed = _G["check"], _G["tier"], _G["seed"]
    ctx = Ctx()
    t0 = time.time()
    before = list(_G.setdefault("done", []))
    _G["done"].append(shard)
    try:
        import numpy

        ctx._shard = shard
        for index, case in enumerate(check.cases(tier, shard)):
            numpy.random.seed(seed)
            ctx._case = case
            ctx._index = index
            ctx.evaluations += 1
            if len(ctx.samples) < 2:
                ctx.samples.append(check.show(case))
            check.run_case(case, ctx)
    except BaseException:
        return {"error": "shard %r: %s" % (shard, traceback.format_exc())}
    return {
        "shard": shard,
        "before": before,
        "evaluations": ctx.evaluations,
        "traces": ctx.traces,
        "states": ctx.states,
        "transitions": ctx.transitions,
        "outcomes": ctx.outcomes,
        "nontrivial": ctx.nontrivial,
        "failures": [f + o for f, o in zip(ctx.failures, ctx.origins)],
        "fail_counts": ctx.fail_counts,
        "capped": any(n > Ctx.MAX_FAIL_PER_CLAUSE for n in ctx.fail_counts.values()),
        "samples": ctx.samples,
        "extra": ctx.extra,
        "wall": time.time() - t0,
    }


# ------------------------------------------------------------------------------ findings
def load_known(pid):
    """KNOWN_FINDINGS.txt -> list of open findings for this property."""
    path = os.path.join(VERIF, "KNOWN_FINDINGS.txt")
    out = []
    if not os.path.exists(path):
        return out
    for line in open(path):
        line = line.strip()
        if not line.startswith("finding:"):
            continue
        body, _, what = line[len("finding:"):].partition("::")
        fields = {}
        rest = body.strip()
        # property=<id> clause=<c> input=<json>
        for key in ("property", "clause"):
            tok, _, rest = rest.partition(" ")
            k, _, v = tok.partition("=")
            fields[k] = v
        assert rest.startswith("input="), line
        fields["input"] = rest[len("input="):].strip()
        if fields.get("property") == pid:
            fields["what"] = what.strip()
            out.append(fields)
    return out


def failing_clauses(check, case):
    ctx = Ctx()
    ctx._case = case
    import numpy

    numpy.random.seed(_G.get("seed", 0))
    check.run_case(case, ctx)
    return sorted(set(c for c, _k, _d in ctx.failures)), ctx


def shrink_failure(check, clause, case, budget=300):
    """Greedy deterministic reduction to a local minimum that still fails `clause`."""
    cur = case
    steps = 0
    improved = True
    while improved and steps < budget:
        improved = False
        for cand in check.shrink(cur):
            steps += 1
            if steps > budget:
                break
            try:
                cl, _ = failing_clauses(check, cand)
            except BaseException:
                continue
            if clause in cl:
                cur = cand
                improved = True
                break
    return cur


# ------------------------------------------------------------------------------ main
def write_evidence(check, tier, seed, agg, wall, violations, known_hits, capped):
    cov = {
        "evaluations": agg["evaluations"],
        "distinct_nontrivial": len(agg["nontrivial"]),
        "rule": check.rule,
        "samples": agg["samples"][:6],
        "states": max(1, len(agg["states"])),
        "transitions": max(1, agg["transitions"]),
        "traces_validated_against_impl": agg["traces"],
        "distinct_outcomes": len(agg["outcomes"]),
        "outcome_histogram": dict(agg["outcomes"].most_common(12)),
        "bounds": check.bounds(tier),
        # every enumerated case is executed and judged; a cap only truncates the list of failing cases kept for
        # individual shrinking / reporting (see failure_list_capped)
        "exhaustive": bool(check.exhaustive),
        "failure_list_capped": bool(capped),
        "known_findings_matched": known_hits,
        "failing_cases_by_clause": dict(agg["fail_counts"]),
    }
    cov.update({k: v for k, v in agg["extra"].items()})
    ev = {
        "property_id": check.id,
        "tier": tier,
        "seed": seed,
        "level": check.level,
        "coverage": cov,
        "assumptions": list(check.assumptions),
        "wall_s": round(wall, 3),
        "violations": violations,
    }
    evdir = os.environ.get("VERIF_EVIDENCE_DIR") or os.path.join(VERIF, "evidence")
    os.makedirs(evdir, exist_ok=True)
    path = os.path.join(evdir, "%s.json" % check.id)
    with open(path + ".tmp", "w") as f:
        json.dump(ev, f, indent=1, sort_keys=True)
    os.replace(path + ".tmp", path)
    return path


def write_replay(check, clause, case, detail, original=None, history=None):
    d = os.path.join(os.environ.get("VERIF_REPLAY_DIR") or os.path.join(VERIF, "replays"), check.id)
    os.makedirs(d, exist_ok=True)
    body = {
        "property_id": check.id,
        "clause": clause,
        "case": jsonable(case),
        "shown": check.show(case),
        "detail": detail,
    }
    if original is not None:
        body["unshrunk_case"] = jsonable(original)
    if history is not None:
        body["history"] = history
    sha = hashlib.sha1(canon([clause, jsonable(case)]).encode()).hexdigest()[:16]
    path = os.path.join(d, "%s.json" % sha)
    with open(path, "w") as f:
        json.dump(body, f, indent=1, sort_keys=True)
    return path


def replay(pid, path):
    check = load_check(pid)
    _G["seed"] = int(os.environ.get("VERIF_SEED", "0"))
    body = json.load(open(path))
    case = tup(body["case"])
    if body.get("history"):
        return replay_history(check, pid, path, body)
    a, ctx1 = failing_clauses(check, case)
    b, ctx2 = failing_clauses(check, case)
    if a != b:
        print("two runs of the case in this process disagree (%r vs %r): state is kept between calls" % (a, b))
        print("VIOLATION property=%s replay=%s" % (pid, path))
        return 1
    if a:
        for cl, _c, det in ctx1.failures:
            print("clause=%s\n  %s" % (cl, det))
        print("VIOLATION property=%s replay=%s" % (pid, path))
        return 1
    print("replay of %s: property %s holds on this case" % (path, pid))
    return 0


def replay_history(check, pid, path, body):
    """run the cases of one shard, in order, up to the recorded ordinal, in this (fresh) process"""
    import numpy

    h = body["history"]
    want = body["clause"].split(":", 1)[1]
    check.selfcheck()  # the workers are forked after the self-check has run
    shard = tup(h["shard"]) if isinstance(h["shard"], list) else h["shard"]
    ctx = Ctx()
    hit = False
    # the shards the same worker process had run before this one, in full
    for sh in h.get("before", []):
        sh = tup(sh) if isinstance(sh, list) else sh
        for case in check.cases(h["tier"], sh):
            numpy.random.seed(h.get("seed", 0))
            ctx._case = case
            check.run_case(case, ctx)
    ctx = Ctx()
    for index, case in enumerate(check.cases(h["tier"], shard)):
        numpy.random.seed(h.get("seed", 0))
        ctx._case = case
        before = len(ctx.failures)
        check.run_case(case, ctx)
        if index == h["upto"]:
            hit = any(c == want for c, _k, _d in ctx.failures[before:])
            break
    if hit:
        print("clause=%s after %d preceding cases of shard %r" % (want, h["upto"], shard))
        print("VIOLATION property=%s replay=%s" % (pid, path))
        return 1
    print("replay of %s: no failure after the shard prefix" % path)
    return 0


def main(pid, tier, seed):
    t0 = time.time()
    check = load_check(pid)
    try:
        check.selfcheck()
    except BaseException:
        traceback.print_exc()
        print("INTERNAL model self-check failed for %s" % pid)
        return 2
    shards = list(check.shards(tier))
    # the seed only rotates the order in which shards are handed out
    if shards:
        k = seed % len(shards)
        shards = shards[k:] + shards[:k]
    agg = {
        "evaluations": 0,
        "traces": 0,
        "states": set(),
        "transitions": 0,
        "outcomes": Counter(),
        "nontrivial": set(),
        "failures": [],
        "fail_counts": Counter(),
        "samples": [],
        "extra": Counter(),
    }
    errors = []
    nproc = min(NPROC, max(1, len(shards)))
    # A worker process runs several shards one after the other; each result names the shards its worker had done
    # before, so that a history-dependent failure can be replayed with exactly the calls that preceded it.
    with multiprocessing.get_context("fork").Pool(
        nproc, initializer=_init_worker, initargs=(pid, tier, seed)
    ) as pool:
        for res in pool.imap_unordered(_run_shard, shards):
            if "error" in res:
                errors.append(res["error"])
                continue
            agg["evaluations"] += res["evaluations"]
            agg["traces"] += res["traces"]
            agg["states"] |= res["states"]
            agg["transitions"] += res["transitions"]
            agg["outcomes"].update(res["outcomes"])
            agg["nontrivial"] |= res["nontrivial"]
            agg["failures"].extend(res["failures"])
            if res["failures"]:
                agg.setdefault("before", {})[canon(res["shard"])] = res["before"]
            agg["fail_counts"].update(res["fail_counts"])
            agg["capped"] = agg.get("capped", False) or res.get("capped", False)
            agg["extra"].update(res["extra"])
            if len(agg["samples"]) < 6:
                agg["samples"].extend(res["samples"][:1])
    if errors:
        for e in errors[:3]:
            print(e)
        print("INTERNAL %d shard(s) crashed in the harness" % len(errors))
        return 2
    if agg["traces"] == 0:
        agg["traces"] = agg["evaluations"]

    # ---- failures: shrink, identify, match ------------------------------------
    _G["seed"] = seed
    known = load_known(pid)
    known_index = {(k["clause"], k["input"]): k for k in known}
    known_hits = Counter()
    violations = []
    seen_ident = {}
    capped = agg.get("capped", False)
    # deterministic order: simplest (shortest) first
    fails = sorted(agg["failures"], key=lambda f: (f[0], len(canon(f[1])), canon(f[1])))
    shrink_cache = {}
    history_checked = 0
    expensive = Counter()  # failures per clause that went through shrinking / confirmation
    reported = Counter()  # violations per clause
    unconfirmed = 0
    MAX_EXPENSIVE = 25
    for clause, case, detail, origin_shard, origin_index in fails:
        key0 = (clause, canon(case))
        if key0 in shrink_cache:
            continue
        # direct hit (already minimal) avoids the shrinker
        ident = (clause, canon(check.show(case)))
        small = case
        if ident not in known_index:
            if expensive[clause] >= MAX_EXPENSIVE and any(v[0].endswith(clause) for v in violations):
                # this clause already has confirmed violations; the remaining (larger) failing cases of the same
                # clause are counted, not shrunk one by one
                unconfirmed += 1
                continue
            expensive[clause] += 1
            small = shrink_failure(check, clause, case)
            ident = (clause, canon(check.show(small)))
        shrink_cache[key0] = ident
        if ident in known_index:
            known_hits[ident] += 1
            continue
        if ident in seen_ident:
            continue
        seen_ident[ident] = True
        # confirm twice before raising the alarm
        a, ctx1 = failing_clauses(check, small)
        b, _ = failing_clauses(check, small)
        if a != b:
            # Two runs of one case in one process disagree.  Every check is deterministic on a sound tree (this
            # is verified on the unchanged tree), so the implementation keeps state between calls: a violation.
            det = "the same case run twice in one process fails %r the first time and %r the second: state is kept between calls; %s" % (a, b, detail)
            path = write_replay(check, "state-dependent:" + clause, small, det)
            violations.append(("state-dependent:" + clause, small, path, det))
            seen_ident[ident] = True
            continue
        if clause not in a:
            # The case fails only after the cases that preceded it in its shard: state left behind by earlier
            # calls changes a later outcome.  Replay the shard prefix in a fresh interpreter to confirm.
            if history_checked >= 3:
                continue
            history_checked += 1
            path = write_replay(check, "history-dependent:" + clause, case, detail,
                                history={"tier": tier, "shard": jsonable(origin_shard), "upto": origin_index, "seed": seed,
                                         "before": jsonable(agg.get("before", {}).get(canon(origin_shard), []))})
            import subprocess
            rc = subprocess.run([sys.executable, os.path.join(VERIF, "run.py"), pid, "--replay", path],
                                capture_output=True, text=True, env=dict(os.environ, VERIF_NPROC="1")).returncode
            if rc == 1:
                violations.append(("history-dependent:" + clause, case, path,
                                   "fails only after the %d preceding cases of its shard%s (state left behind by earlier calls): %s"
                                   % (origin_index, " and the %d shards its worker ran before" % len(agg.get("before", {}).get(canon(origin_shard), [])), detail)))
                seen_ident[("history-dependent:" + clause, canon(check.show(case)))] = True
                continue
            print("INTERNAL failure did not reproduce, alone or after its shard prefix: %s %s" % (clause, canon(check.show(case))[:300]))
            return 2
        det = next((d for c, _k, d in ctx1.failures if c == clause), detail)
        path = write_replay(check, clause, small, det, original=case if small is not case else None)
        violations.append((clause, small, path, det))

    wall = time.time() - t0
    hits = {"%s %s" % k: v for k, v in known_hits.items()}
    write_evidence(check, tier, seed, agg, wall, len(violations), hits, capped)

    for ident, n in sorted(known_hits.items()):
        k = known_index[ident]
        print("KNOWN-FINDING: property=%s %s [clause=%s input=%s; %d case(s)]" % (pid, k["what"], ident[0], ident[1], n))
    print(
        "%s tier=%s: %d cases, %d impl runs, %d states, %d transitions, %d distinct outcomes, %.1fs%s"
        % (
            pid,
            tier,
            agg["evaluations"],
            agg["traces"],
            len(agg["states"]),
            agg["transitions"],
            len(agg["outcomes"]),
            wall,
            " (failure list capped)" if capped else "",
        )
    )
    if unconfirmed:
        print("  (%d further failing cases of clauses that already have confirmed violations were not shrunk individually)" % unconfirmed)
    if violations:
        for clause, small, path, det in violations[:40]:
            print("  failed clause %s on %s\n    %s" % (clause, canon(check.show(small))[:400], det[:400]))
            print("VIOLATION property=%s replay=%s" % (pid, path))
        if len(violations) > 40:
            print("  ... and %d more distinct violations" % (len(violations) - 40))
        return 1
    return 0
