"""Native gate fixtures shared by the checks that emulate.

The unitaries of A2/A3 are *generic*: all entries are pairwise distinct and non-zero, so a
transposition, a bit reversal or an argument-order slip in the emulator changes the state.
The reference simulator (mc/ref/execute.py) uses the same matrices but its own embedding.
"""
import numpy as np

from mc import impl

Q = impl.ParamType.QUBIT
F = impl.ParamType.FLOAT
I = impl.ParamType.INT


def _generic_unitary(dim, seed):
    rng = np.random.RandomState(seed)
    m = rng.normal(size=(dim, dim)) + 1j * rng.normal(size=(dim, dim))
    q, r = np.linalg.qr(m)
    d = np.diag(r)
    return q * (d / np.abs(d))


_Q1 = _generic_unitary(4, 11)
_Q2 = _generic_unitary(4, 12)
_A3 = _generic_unitary(8, 13)
_G1 = _generic_unitary(2, 14)


def u_X():
    return np.array([[0, 1], [1, 0]], dtype=complex)


def u_H():
    return np.array([[1, 1], [1, -1]], dtype=complex) / np.sqrt(2)


def u_G1():
    return _G1.copy()


def u_Rz(theta):
    return np.array([[np.exp(-0.5j * theta), 0], [0, np.exp(0.5j * theta)]], dtype=complex)


def u_Rx(theta):
    c, s = np.cos(theta / 2), np.sin(theta / 2)
    return np.array([[c, -1j * s], [-1j * s, c]], dtype=complex)


def u_CX():
    # bit 0 of the matrix index = first argument (control), bit 1 = second (target)
    m = np.zeros((4, 4), dtype=complex)
    m[0, 0] = m[2, 2] = 1
    m[1, 3] = m[3, 1] = 1
    return m


def u_A2(theta):
    return _Q1 @ np.diag(np.exp(1j * theta * np.arange(1, 5))) @ _Q2


def u_A3():
    return _A3.copy()


def P(name, kind):
    return impl.Parameter(name, kind)


def native_gates(idle=True):
    """A fresh table every call (so that mutation of one table cannot leak)."""
    g = [
        impl.BusyGateDefinition("prepare_all"),
        impl.BusyGateDefinition("measure_all"),
        impl.GateDefinition("X", [P("q", Q)], ideal_unitary=u_X),
        impl.GateDefinition("H", [P("q", Q)], ideal_unitary=u_H),
        impl.GateDefinition("G1", [P("q", Q)], ideal_unitary=u_G1),
        impl.GateDefinition("Rz", [P("q", Q), P("theta", F)], ideal_unitary=u_Rz),
        impl.GateDefinition("Rx", [P("q", Q), P("theta", F)], ideal_unitary=u_Rx),
        impl.GateDefinition("CX", [P("c", Q), P("t", Q)], ideal_unitary=u_CX),
        impl.GateDefinition("A2", [P("a", Q), P("b", Q), P("theta", F)], ideal_unitary=u_A2),
        impl.GateDefinition("A3", [P("a", Q), P("b", Q), P("c", Q)], ideal_unitary=u_A3),
        impl.GateDefinition("N1", [P("q", Q)]),
    ]
    table = {d.name: d for d in g}
    if idle:
        table = impl.add_idle_gates(table)
    return table


# signature table for the model: name -> (kinds, unitary function or None, busy?)
SIGS = {
    "prepare_all": ((), None, True),
    "measure_all": ((), None, True),
    "X": (("q",), u_X, False),
    "H": (("q",), u_H, False),
    "G1": (("q",), u_G1, False),
    "Rz": (("q", "f"), u_Rz, False),
    "Rx": (("q", "f"), u_Rx, False),
    "CX": (("q", "q"), u_CX, False),
    "A2": (("q", "q", "f"), u_A2, False),
    "A3": (("q", "q", "q"), u_A3, False),
    "N1": (("q",), None, False),
}
for _n in list(SIGS):
    if _n not in ("prepare_all", "measure_all"):
        SIGS["I_" + _n] = (SIGS[_n][0], None, False)  # idle: same signature, no action, no qubits
IDLE = {n for n in SIGS if n.startswith("I_")}
