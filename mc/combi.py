"""Exhaustive combinators: grammar-driven tree enumeration bounded by total node count,
compositions, subsets, k-deviation neighbourhoods.  Everything is deterministic and
ordered simplest-first."""
import itertools
from functools import lru_cache


def compositions(n, k):
    """All k-tuples of positive ints summing to n."""
    if k == 0:
        if n == 0:
            yield ()
        return
    if k == 1:
        if n >= 1:
            yield (n,)
        return
    for first in range(1, n - k + 2):
        for rest in compositions(n - first, k - 1):
            yield (first,) + rest


class TreeGrammar:
    """rules: ctx -> list of (kind, variants, mode, child_ctx)
    mode 'leaf': node (kind, variant)            variants: list of labels (or [None])
    mode 'one' : node (kind, variant, child)     exactly one child from child_ctx
    mode 'many': node (kind, variant, children)  a forest (possibly empty) from child_ctx
    Every node counts 1.  `child_ctx` may be a callable ctx -> ctx to carry context
    (e.g. "inside a subcircuit")."""

    def __init__(self, rules, max_children=None):
        self.rules = rules
        self.max_children = max_children
        self._t = {}
        self._f = {}

    def trees(self, n, ctx):
        key = (n, ctx)
        if key in self._t:
            return self._t[key]
        out = []
        if n >= 1:
            for kind, variants, mode, cctx in self.rules[ctx]:
                if callable(cctx):
                    cctx = cctx(ctx)
                if mode == "leaf":
                    if n == 1:
                        for v in variants:
                            out.append((kind, v))
                elif mode == "one":
                    for ch in self.trees(n - 1, cctx):
                        for v in variants:
                            out.append((kind, v, ch))
                else:
                    for f in self.forests(n - 1, cctx):
                        for v in variants:
                            out.append((kind, v, f))
        self._t[key] = out
        return out

    def forests(self, n, ctx):
        """all tuples of trees (roots allowed in ctx) with n nodes in total"""
        key = (n, ctx)
        if key in self._f:
            return self._f[key]
        out = []
        if n == 0:
            out.append(())
        else:
            maxk = n if self.max_children is None else min(n, self.max_children)
            for k in range(1, maxk + 1):
                for comp in compositions(n, k):
                    pools = [self.trees(c, ctx) for c in comp]
                    if all(pools):
                        out.extend(itertools.product(*pools))
        self._f[key] = out
        return out

    def iter_forests(self, n, ctx):
        """like forests() but lazily at the top level (nothing of size n is memoised
        except single trees)"""
        if n == 0:
            yield ()
            return
        maxk = n if self.max_children is None else min(n, self.max_children)
        for k in range(1, maxk + 1):
            for comp in compositions(n, k):
                pools = [self.trees(c, ctx) for c in comp]
                if all(pools):
                    yield from itertools.product(*pools)

    def forests_upto(self, n, ctx):
        for m in range(0, n + 1):
            yield from self.forests(m, ctx)


def subsets_upto(items, k):
    """all subsets of size <= k, smallest first, in index order"""
    for r in range(0, k + 1):
        yield from itertools.combinations(items, r)
