"""RefJaqal abstract syntax: plain nested tuples (hashable, picklable, JSON round-trippable).

program  ('prog', header, body)
header   ('usepulses', module) | ('let', name, number) | ('register', name, size)
         | ('map', name, src) | ('map', name, src, index) | ('map', name, src, lo, hi, st)
           size/index: int | let-name;  lo/hi/st: None | int | let-name
body     ('macro', name, params, block) | stmt
stmt     ('gate', name, args) | ('seq', items) | ('par', items)
         | ('loop', count, block) | ('sub', count|None, items)
arg      number | identifier(str) | ('item', identifier, int|identifier)
"""

BLOCKS = ("seq", "par")


def prog(header=(), body=()):
    return ("prog", tuple(header), tuple(body))


def gate(name, *args):
    return ("gate", name, tuple(args))


def seq(*items):
    return ("seq", tuple(items))


def par(*items):
    return ("par", tuple(items))


def loop(count, block):
    return ("loop", count, block)


def sub(count, *items):
    return ("sub", count, tuple(items))


def macro(name, params, block):
    return ("macro", name, tuple(params), block)


def item(name, idx):
    return ("item", name, idx)


def children(node):
    k = node[0]
    if k in ("seq", "par"):
        return node[1]
    if k == "sub":
        return node[2]
    if k == "loop":
        return (node[2],)
    if k == "macro":
        return (node[3],)
    return ()


def with_children(node, ch):
    k = node[0]
    ch = tuple(ch)
    if k in ("seq", "par"):
        return (k, ch)
    if k == "sub":
        return (k, node[1], ch)
    if k == "loop":
        return (k, node[1], ch[0])
    if k == "macro":
        return (k, node[1], node[2], ch[0])
    return node


def node_count(node):
    return 1 + sum(node_count(c) for c in children(node))


def walk(node):
    yield node
    for c in children(node):
        yield from walk(c)


def body_statements(p):
    return [s for s in p[2] if s[0] != "macro"]


def macros(p):
    return [s for s in p[2] if s[0] == "macro"]


# ---------------------------------------------------------------- shrinking candidates
def _shrink_stmt(s):
    """Yield simpler variants of one statement (not deletion)."""
    k = s[0]
    if k in ("seq", "par"):
        items = s[1]
        for i in range(len(items)):
            yield (k, items[:i] + items[i + 1:])
        for i, it in enumerate(items):
            for v in _shrink_stmt(it):
                yield (k, items[:i] + (v,) + items[i + 1:])
    elif k == "sub":
        items = s[2]
        for i in range(len(items)):
            yield (k, s[1], items[:i] + items[i + 1:])
        if s[1] is not None:
            yield (k, None, items)
        for i, it in enumerate(items):
            for v in _shrink_stmt(it):
                yield (k, s[1], items[:i] + (v,) + items[i + 1:])
        yield ("seq", items)
    elif k == "loop":
        yield s[2]
        if s[1] != 1:
            yield (k, 1, s[2])
        for v in _shrink_stmt(s[2]):
            yield (k, s[1], v)
    elif k == "macro":
        for v in _shrink_stmt(s[3]):
            if v[0] in BLOCKS:
                yield (k, s[1], s[2], v)
    elif k == "gate":
        args = s[2]
        for i in range(len(args)):
            yield (k, s[1], args[:i] + args[i + 1:])


def shrink_program(p):
    """Candidates: drop a header item, drop a body item, simplify one statement in place,
    hoist the children of a top-level block."""
    _, header, body = p
    for i in range(len(body)):
        yield ("prog", header, body[:i] + body[i + 1:])
    for i in range(len(header)):
        yield ("prog", header[:i] + header[i + 1:], body)
    for i, s in enumerate(body):
        if s[0] in ("seq", "sub"):
            ch = s[1] if s[0] == "seq" else s[2]
            yield ("prog", header, body[:i] + tuple(ch) + body[i + 1:])
        for v in _shrink_stmt(s):
            yield ("prog", header, body[:i] + (v,) + body[i + 1:])
