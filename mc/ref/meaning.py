"""RefJaqal: meaning of a program, written from the property statements.

den(P, env)  denotation: macros expanded by call-by-substitution, lets evaluated in env, every
             qubit reference resolved to a physical (register, index); a tree over
             seq / par / loop(n) / sub(n) / gate(name, resolved args), normalised only by what
             substitution introduces (see norm()).
sym(P)       symbolic form: declarations in order-insensitive maps, body with named references.

Values:  number | ('q', reg, idx) | ('cells', ((reg, idx), ...)) | ('param', name) (unbound)
"""
from . import ast as A


class Invalid(Exception):
    """The program (in the given environment) contains a reference that cannot be honoured."""

    def __init__(self, reason, detail=""):
        super().__init__("%s %s" % (reason, detail))
        self.reason = reason
        self.detail = detail


def is_int(x):
    return isinstance(x, int) and not isinstance(x, bool)


def as_int(x, what):
    """integral numbers (including integral floats) as int; anything else is invalid"""
    if is_int(x):
        return x
    if isinstance(x, float) and x == int(x):
        return int(x)
    raise Invalid("non-integer", "%s = %r" % (what, x))


# ------------------------------------------------------------------ normal form
def norm(node):
    """Splice seq-in-seq / par-in-par, drop empty blocks, unwrap one-element blocks.
    Loops, subcircuits and their counts are never normalised away."""
    k = node[0]
    if k == "gate":
        return node
    if k in ("seq", "par"):
        items = []
        for it in node[1]:
            it = norm(it)
            if it is None:
                continue
            if it[0] == k:
                items.extend(it[1])
            else:
                items.append(it)
        if not items:
            return None
        if len(items) == 1:
            return items[0]
        return (k, tuple(items))
    if k == "sub":
        inner = norm(("seq", node[2]))
        if inner is None:
            items = ()
        elif inner[0] == "seq":
            items = inner[1]
        else:
            items = (inner,)
        return ("sub", node[1], items)
    if k == "loop":
        body = norm(node[2])
        return ("loop", node[1], body if body is not None else ("seq", ()))
    if k == "invalid":
        return node
    raise ValueError(node)


def norm_top(items):
    n = norm(("seq", tuple(items)))
    if n is None:
        return ("seq", ())
    if n[0] != "seq":
        return ("seq", (n,))
    return n


# ------------------------------------------------------------------ the model
class Model:
    """natives: None (any gate name allowed, arity free) or dict name -> tuple of kinds,
    kind in 'q' (qubit) 'f' (float) 'i' (int) 'r' (register) None (untyped)."""

    def __init__(self, p, natives=None):
        assert p[0] == "prog", p
        self.p = p
        self.header = p[1]
        self.body = p[2]
        self.natives = natives
        self.lets = {}  # name -> declared value
        self.regs = {}  # name -> header item
        self.order = []  # names in declaration order
        self.usepulses = []
        self.static_error = None  # first declaration-level error (reason)
        names = set()
        for h in self.header:
            k = h[0]
            if k == "usepulses":
                self.usepulses.append(h[1])
                continue
            name = h[1]
            if name in names and self.static_error is None:
                self.static_error = "duplicate"
            names.add(name)
            self.order.append(name)
            if k == "let":
                self.lets.setdefault(name, h[2])
            else:
                self.regs.setdefault(name, h)
        self.macros = {}  # name -> (params, block, position)
        for pos, s in enumerate(self.body):
            if s[0] == "macro":
                if (s[1] in self.macros or (natives is not None and s[1] in natives)) and self.static_error is None:
                    self.static_error = "duplicate"
                self.macros.setdefault(s[1], (s[2], s[3], pos))

    # -------------------------------------------------------------- environment
    def env(self, override=None):
        e = dict(self.lets)
        for k, v in (override or {}).items():
            if k in e:
                e[k] = v
        return e

    def _num(self, x, env, what):
        """int literal or let name -> number"""
        if isinstance(x, str):
            if x in env:
                return env[x]
            if x in self.regs:
                raise Invalid("not-a-number", "%s names a register" % x)
            raise Invalid("undefined", x)
        return x

    # -------------------------------------------------------------- registers
    def value_of_name(self, name, env, _depth=0):
        """header name -> number | ('q', reg, i) | ('cells', ...)"""
        if name in env:
            return env[name]
        if name not in self.regs:
            raise Invalid("undefined", name)
        if _depth > 50:
            raise Invalid("cyclic", name)
        h = self.regs[name]
        if h[0] == "register":
            size = as_int(self._num(h[2], env, "size"), "register size")
            if size < 1:
                raise Invalid("size", "register %s[%d]" % (name, size))
            return ("cells", tuple((name, i) for i in range(size)))
        # map: the source must have been declared earlier
        src = h[2]
        if src not in self.regs or self.order.index(src) >= self.order.index(name):
            if src in env:
                raise Invalid("index-non-register", "map %s of let %s" % (name, src))
            raise Invalid("undefined", "map source %s" % src)
        base = self.value_of_name(src, env, _depth + 1)
        if base[0] != "cells":
            raise Invalid("index-non-register", "map %s of single qubit %s" % (name, src))
        cells = base[1]
        if len(h) == 3:
            return base
        if len(h) == 4:
            i = as_int(self._num(h[3], env, "index"), "alias index")
            if not 0 <= i < len(cells):
                raise Invalid("out-of-range", "map %s %s[%d] of %d" % (name, src, i, len(cells)))
            return ("q",) + cells[i]
        lo, hi, st = h[3:6]
        lo = 0 if lo is None else as_int(self._num(lo, env, "start"), "slice start")
        hi = len(cells) if hi is None else as_int(self._num(hi, env, "stop"), "slice stop")
        st = 1 if st is None else as_int(self._num(st, env, "step"), "slice step")
        if st == 0:
            raise Invalid("zero-step", name)
        idx = list(range(lo, hi, st))
        # an element outside the source cannot be honoured (judged by C14) ...
        if any(not 0 <= j < len(cells) for j in idx):
            raise Invalid("out-of-range", "map %s %s[%r:%r:%r] of %d" % (name, src, lo, hi, st, len(cells)))
        # ... whereas bounds that merely *name* a position outside while every element is
        # inside, and empty aliases, are not spoken of by any property: kept out of the
        # valid space but never held against the implementation (reasons "odd-bounds", "empty-alias")
        if not idx:
            raise Invalid("empty-alias", name)
        if lo < 0 or hi < -1 or hi > len(cells):
            raise Invalid("odd-bounds", "map %s %s[%r:%r:%r] of %d" % (name, src, lo, hi, st, len(cells)))
        return ("cells", tuple(cells[j] for j in idx))

    def check_declarations(self, env):
        if self.static_error:
            raise Invalid(self.static_error)
        for name in self.order:
            if name in self.regs:
                self.value_of_name(name, env)

    # -------------------------------------------------------------- arguments
    def eval_arg(self, a, scope, env):
        if isinstance(a, tuple):  # ('item', name, idx)
            _, name, idx = a
            if name in scope:
                base = scope[name]
            else:
                base = self.value_of_name(name, env)
            if not (isinstance(base, tuple) and base[0] == "cells"):
                if isinstance(base, tuple) and base[0] == "param":
                    return ("item", base, self._idx(idx, scope, env))
                raise Invalid("index-non-register", "%s[...]" % name)
            i = self._idx(idx, scope, env)
            if isinstance(i, tuple):
                return ("item", base, i)
            if not 0 <= i < len(base[1]):
                raise Invalid("out-of-range", "%s[%d] of %d" % (name, i, len(base[1])))
            return ("q",) + base[1][i]
        if isinstance(a, str):
            if a in scope:
                return scope[a]
            return self.value_of_name(a, env)
        return a

    def _idx(self, idx, scope, env):
        if isinstance(idx, str):
            if idx in scope:
                v = scope[idx]
            elif idx in env:
                v = env[idx]
            elif idx in self.regs:
                raise Invalid("not-a-number", "index %s names a register" % idx)
            else:
                raise Invalid("undefined", idx)
        else:
            v = idx
        if isinstance(v, tuple):
            if v[0] == "param":
                return v
            raise Invalid("not-a-number", "index is %r" % (v,))
        return as_int(v, "index")

    # -------------------------------------------------------------- statements
    def den_stmt(self, s, scope, env, pos, depth=0):
        """pos: index of the enclosing top-level body item (macros defined earlier are callable)"""
        k = s[0]
        if k == "gate":
            name, args = s[1], s[2]
            vals = tuple(self.eval_arg(a, scope, env) for a in args)
            m = self.macros.get(name)
            if m is not None:
                params, block, mpos = m
                if mpos >= pos:
                    raise Invalid("call-before-definition", name)
                if len(params) != len(vals):
                    raise Invalid("arity", "macro %s takes %d, given %d" % (name, len(params), len(vals)))
                if depth > 40:
                    raise Invalid("recursion", name)
                return self.den_stmt(block, dict(zip(params, vals)), env, mpos, depth + 1)
            if self.natives is not None:
                if name not in self.natives:
                    raise Invalid("unknown-gate", name)
                kinds = self.natives[name]
                if len(kinds) != len(vals):
                    raise Invalid("arity", "gate %s takes %d, given %d" % (name, len(kinds), len(vals)))
                for kd, v in zip(kinds, vals):
                    check_kind(kd, v, name)
            return ("gate", name, vals)
        if k in ("seq", "par"):
            return (k, tuple(self.den_stmt(i, scope, env, pos, depth) for i in s[1]))
        if k == "sub":
            n = 1 if s[1] is None else self._count(s[1], scope, env)
            return ("sub", n, tuple(self.den_stmt(i, scope, env, pos, depth) for i in s[2]))
        if k == "loop":
            n = self._count(s[1], scope, env)
            return ("loop", n, self.den_stmt(s[2], scope, env, pos, depth))
        raise ValueError(s)

    def _count(self, c, scope, env):
        if isinstance(c, str):
            if c in scope:
                v = scope[c]
            elif c in env:
                v = env[c]
            elif c in self.regs:
                raise Invalid("not-a-number", "count %s names a register" % c)
            else:
                raise Invalid("undefined", c)
        else:
            v = c
        if isinstance(v, tuple):
            if v[0] == "param":
                return v
            raise Invalid("not-a-number", "count is %r" % (v,))
        v = as_int(v, "count")
        if v < 0:
            raise Invalid("negative-count", str(v))
        return v

    def den(self, override=None, check_macro_bodies=True, normalise=True):
        """-> normalised tree, or raises Invalid"""
        env = self.env(override)
        self.check_declarations(env)
        items = []
        for pos, s in enumerate(self.body):
            if s[0] == "macro":
                if check_macro_bodies:
                    # the body must at least be well formed with its parameters unbound
                    scope = {p: ("param", p) for p in s[2]}
                    if len(set(s[2])) != len(s[2]):
                        raise Invalid("duplicate", "parameter of %s" % s[1])
                    self.den_stmt(s[3], scope, env, pos)
                continue
            items.append(self.den_stmt(s, {}, env, pos))
        if not normalise:
            return ("seq", tuple(items))
        return norm_top(items)

    def try_den(self, override=None):
        try:
            return self.den(override)
        except Invalid as e:
            return ("invalid", e.reason)

    # -------------------------------------------------------------- symbolic form
    def size_sym(self, name):
        """what `name.size` denotes symbolically (fundamental: its size expression;
        whole alias: that of its source; slice: the evaluated length)"""
        h = self.regs[name]
        if h[0] == "register":
            return symnum(h[2])
        if len(h) == 3:
            return self.size_sym(h[2])
        if len(h) == 4:
            return None
        v = self.value_of_name(name, self.env())
        return len(v[1])

    def sym(self):
        lets = tuple(sorted((n, v) for n, v in self.lets.items()))
        regs = []
        for name, h in self.regs.items():
            if h[0] == "register":
                regs.append((name, ("fund", symnum(h[2]))))
            elif len(h) == 3:
                regs.append((name, ("alias", h[2])))
            elif len(h) == 4:
                regs.append((name, ("alias1", h[2], symnum(h[3]))))
            else:
                lo, hi, st = h[3:6]
                lo = 0 if lo is None else symnum(lo)
                hi = self.size_sym(h[2]) if hi is None else symnum(hi)
                st = 1 if st is None else symnum(st)
                regs.append((name, ("slice", h[2], lo, hi, st)))
        macros = []
        seen = set()
        body = []
        for s in self.body:
            if s[0] == "macro":
                macros.append((s[1], tuple(s[2]), self.sym_stmt(s[3], set(s[2]), seen)))
                seen.add(s[1])
            else:
                body.append(self.sym_stmt(s, set(), seen))
        return (
            "prog",
            ("usepulses", tuple(self.usepulses)),
            ("lets", lets),
            ("regs", tuple(sorted(regs))),
            ("macros", tuple(sorted(macros))),
            ("body", tuple(body)),
        )

    def sym_ref(self, name, params):
        if name in params:
            return ("param", name)
        if name in self.lets:
            return ("let", name)
        return ("reg", name)

    def sym_stmt(self, s, params, macros_seen):
        k = s[0]
        if k == "gate":
            args = []
            for a in s[2]:
                if isinstance(a, tuple):
                    idx = a[2]
                    args.append(("item", self.sym_ref(a[1], params), self.sym_ref(idx, params) if isinstance(idx, str) else idx))
                elif isinstance(a, str):
                    args.append(self.sym_ref(a, params))
                else:
                    args.append(a)
            return ("call" if s[1] in macros_seen else "gate", s[1], tuple(args))
        if k in ("seq", "par"):
            return (k, tuple(self.sym_stmt(i, params, macros_seen) for i in s[1]))
        if k == "sub":
            c = 1 if s[1] is None else (self.sym_ref(s[1], params) if isinstance(s[1], str) else s[1])
            return ("sub", c, tuple(self.sym_stmt(i, params, macros_seen) for i in s[2]))
        if k == "loop":
            c = self.sym_ref(s[1], params) if isinstance(s[1], str) else s[1]
            return ("loop", c, self.sym_stmt(s[2], params, macros_seen))
        raise ValueError(s)


def symnum(x):
    return ("let", x) if isinstance(x, str) else x


def check_kind(kind, v, gate):
    """C14/C18 kind rule for a resolved value"""
    if isinstance(v, tuple) and v[0] in ("param", "item"):
        return  # unbound inside a macro body: checked when the macro is called
    if kind is None:
        return
    if kind == "q":
        ok = isinstance(v, tuple) and v[0] == "q"
    elif kind == "r":
        ok = isinstance(v, tuple) and v[0] == "cells"
    elif kind == "f":
        ok = isinstance(v, (int, float)) and not isinstance(v, bool)
    elif kind == "i":
        ok = (is_int(v)) or (isinstance(v, float) and v == int(v))
    else:
        raise ValueError(kind)
    if not ok:
        raise Invalid("kind", "gate %s: %r is not of kind %s" % (gate, v, kind))


def used_qubits(den_node, all_cells, busy=("prepare_all", "measure_all"), idle=()):
    """set of (reg, idx) some gate acts on (C13 model)"""
    k = den_node[0]
    if k == "gate":
        if den_node[1] in idle:
            return set()
        if den_node[1] in busy:
            return set(all_cells)
        out = set()
        for v in den_node[2]:
            if isinstance(v, tuple) and v[0] == "q":
                out.add((v[1], v[2]))
            elif isinstance(v, tuple) and v[0] == "cells":
                out.update(v[1])
        return out
    if k in ("seq", "par"):
        out = set()
        for i in den_node[1]:
            out |= used_qubits(i, all_cells, busy, idle)
        return out
    if k == "sub":
        # the implicit prepare/measure of an unexpanded subcircuit block is not a gate yet:
        # only the written gates are counted here (callers accept "all qubits" as well)
        out = set()
        for i in den_node[2]:
            out |= used_qubits(i, all_cells, busy, idle)
        return out
    if k == "loop":
        return used_qubits(den_node[2], all_cells, busy, idle)
    return set()


def expand_subs(d, prepare="prepare_all", measure="measure_all"):
    """C09 on denotations: sub(n, B) == seq[prepare, B..., measure]"""
    k = d[0]
    if k in ("gate", "invalid"):
        return d
    if k == "sub":
        return ("seq", (("gate", prepare, ()),) + tuple(expand_subs(i, prepare, measure) for i in d[2]) + (("gate", measure, ()),))
    if k in ("seq", "par"):
        return (k, tuple(expand_subs(i, prepare, measure) for i in d[1]))
    if k == "loop":
        return ("loop", d[1], expand_subs(d[2], prepare, measure))
    raise ValueError(d)


def flat_meaning(d, prepare="prepare_all", measure="measure_all"):
    if d[0] == "invalid":
        return d
    return norm_top((expand_subs(d, prepare, measure),))
