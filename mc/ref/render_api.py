"""AST -> the two programmatic front ends of jaqalpaq (used by C17).

    oo_build(prog, style)      replays the program on the object-oriented CircuitBuilder /
                               BlockBuilder interface and returns builder.build()
    qsyntax_build(prog, anon)  replays the program on `Q` inside one generic
                               @jaqalpaq.qsyntax.circuit function and returns the circuit

The input is the plain AST of mc.ref.ast restricted to what all three front ends express:
header items `let` and `register`; statements gate / seq / par / sub / loop-over-seq.  Names are
resolved through an environment that is filled while the header is replayed, exactly as user
code would keep the returned handles in Python variables.

Only public API is called: CircuitBuilder().let/register/gate/block/subcircuit/loop/build,
SequentialBlockBuilder(), qsyntax.circuit, Q.let/register/sequential/parallel/subcircuit/loop and
Q.<gate name>(...).
"""
import os

from mc import impl  # binds /repo/src first

import jaqalpaq.qsyntax as _qs  # noqa: E402
import jaqalpaq.core.circuitbuilder as _cb  # noqa: E402

for _m in (_qs, _cb):
    assert os.path.realpath(_m.__file__).startswith(os.path.realpath(impl.SRC) + os.sep), _m.__file__

circuit = _qs.circuit
CircuitBuilder = _cb.CircuitBuilder
SequentialBlockBuilder = _cb.SequentialBlockBuilder


class Unsupported(ValueError):
    """the AST uses something outside the common subset"""


# ---------------------------------------------------------------- object-oriented builder
def oo_build(prog, style="obj"):
    """style 'obj': every call evaluates immediately (the default of the API) and the returned
                    Constant / Register objects are passed on, the way tests/core/
                    test_circuitbuilder.py::ObjectOrientedBuilderTester uses the interface;
       style 'str': every call is made with unevaluated=True and later references are by name
                    (strings, ('array_item', reg, index) tuples)."""
    if style not in ("obj", "str"):
        raise ValueError(style)
    lazy = style == "str"
    _, header, body = prog
    cb = CircuitBuilder()
    env = {}

    def ref(x):
        """int literal or name of a let"""
        if isinstance(x, str):
            return env[x]
        return x

    for h in header:
        k = h[0]
        if k == "let":
            if lazy:
                cb.let(h[1], h[2], unevaluated=True)
                env[h[1]] = h[1]
            else:
                env[h[1]] = cb.let(h[1], h[2])
        elif k == "register":
            if lazy:
                cb.register(h[1], ref(h[2]), unevaluated=True)
                env[h[1]] = h[1]
            else:
                env[h[1]] = cb.register(h[1], ref(h[2]))
        else:
            raise Unsupported(h)

    def arg(a):
        if isinstance(a, tuple):
            if a[0] != "item":
                raise Unsupported(a)
            if lazy:
                return ("array_item", env[a[1]], ref(a[2]))
            return env[a[1]][ref(a[2])]
        return ref(a)

    def emit(parent, s):
        k = s[0]
        if k == "gate":
            parent.gate(s[1], *[arg(a) for a in s[2]])
        elif k == "seq":
            b = parent.block()
            for c in s[1]:
                emit(b, c)
        elif k == "par":
            b = parent.block(parallel=True)
            for c in s[1]:
                emit(b, c)
        elif k == "sub":
            b = parent.subcircuit() if s[1] is None else parent.subcircuit(ref(s[1]))
            for c in s[2]:
                emit(b, c)
        elif k == "loop":
            if s[2][0] != "seq":
                raise Unsupported(s)
            b = SequentialBlockBuilder()
            for c in s[2][1]:
                emit(b, c)
            if lazy:
                parent.loop(ref(s[1]), b, unevaluated=True)
            else:
                parent.loop(ref(s[1]), b)
        else:
            raise Unsupported(s)

    for s in body:
        emit(cb, s)
    return cb.build()


# ---------------------------------------------------------------- Q-syntax
def _emit_q(Q, s, env):
    def ref(x):
        if isinstance(x, str):
            return env[x]
        return x

    def arg(a):
        if isinstance(a, tuple):
            if a[0] != "item":
                raise Unsupported(a)
            return env[a[1]][ref(a[2])]
        return ref(a)

    k = s[0]
    if k == "gate":
        getattr(Q, s[1])(*[arg(a) for a in s[2]])
    elif k == "seq":
        with Q.sequential():
            for c in s[1]:
                _emit_q(Q, c, env)
    elif k == "par":
        with Q.parallel():
            for c in s[1]:
                _emit_q(Q, c, env)
    elif k == "sub":
        if s[1] is None:
            with Q.subcircuit():
                for c in s[2]:
                    _emit_q(Q, c, env)
        else:
            with Q.subcircuit(ref(s[1])):
                for c in s[2]:
                    _emit_q(Q, c, env)
    elif k == "loop":
        if s[2][0] != "seq":
            raise Unsupported(s)  # Q.loop always makes `loop n { ... }`
        with Q.loop(ref(s[1])):
            for c in s[2][1]:
                _emit_q(Q, c, env)
    else:
        raise Unsupported(s)


@circuit
def _replay(Q, header, body, anon):
    env = {}
    for h in header:
        k = h[0]
        if k == "let":
            env[h[1]] = Q.let(h[2]) if h[1] in anon else Q.let(h[2], h[1])
        elif k == "register":
            size = env[h[2]] if isinstance(h[2], str) else h[2]
            env[h[1]] = Q.register(size) if h[1] in anon else Q.register(size, h[1])
        else:
            raise Unsupported(h)
    for s in body:
        _emit_q(Q, s, env)


def qsyntax_build(prog, anon=()):
    """Replay `prog` on Q.  Header items whose AST name is in `anon` are declared without a
    name (the AST name is then only the handle by which the body refers to them)."""
    _, header, body = prog
    return _replay(tuple(header), tuple(body), frozenset(anon))
