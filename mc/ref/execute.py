"""RefJaqal, execution part: flat order, acceptance (C12) and the unrolled visit sequence (C08).

Written from the property statements, not from the implementation.

Inputs are *body statements* of mc/ref/ast.py:

    ('gate', name, args) | ('seq', items) | ('par', items) | ('loop', count, block)
    | ('sub', count|None, items)          and, mixed in or given separately, ('macro', name, params, block)

* the gates named 'prepare_all' / 'measure_all' are the bracket gates;
* ('sub', count, items) is the subcircuit block: prepare_all; items; measure_all (the count is a
  number of repetitions of the experiment and plays no role for acceptance or for the visits);
* a loop count is an int or a let name resolved through `env`;
* macro calls are expanded by substitution before anything else.

State-vector simulation is deliberately absent (mc/ref/sim.py).
"""

P_GATE = "prepare_all"
M_GATE = "measure_all"

_PREPARE = ("gate", P_GATE, ())
_MEASURE = ("gate", M_GATE, ())


# ------------------------------------------------------------------------ macro expansion
def _subst_atom(a, binding):
    if isinstance(a, str) and a in binding:
        return binding[a]
    return a


def _subst(stmt, binding):
    """Call-by-substitution of parameter names in one (already macro-free) statement."""
    if not binding:
        return stmt
    k = stmt[0]
    if k == "gate":
        args = []
        for a in stmt[2]:
            if isinstance(a, tuple):  # ('item', register-or-parameter, index-or-parameter)
                base = _subst_atom(a[1], binding)
                idx = _subst_atom(a[2], binding)
                if not isinstance(base, str):
                    raise ValueError("indexing something that is not a register name: %r" % (base,))
                args.append(("item", base, idx))
            else:
                args.append(_subst_atom(a, binding))
        return ("gate", stmt[1], tuple(args))
    if k in ("seq", "par"):
        return (k, tuple(_subst(s, binding) for s in stmt[1]))
    if k == "loop":
        return ("loop", _subst_atom(stmt[1], binding), _subst(stmt[2], binding))
    if k == "sub":
        return ("sub", _subst_atom(stmt[1], binding), tuple(_subst(s, binding) for s in stmt[2]))
    raise ValueError(stmt)


def _expand_stmt(stmt, table):
    k = stmt[0]
    if k == "gate":
        if stmt[1] in table:
            params, block = table[stmt[1]]
            if len(params) != len(stmt[2]):
                raise ValueError("macro %s called with %d argument(s)" % (stmt[1], len(stmt[2])))
            return _subst(block, dict(zip(params, stmt[2])))
        return stmt
    if k in ("seq", "par"):
        return (k, tuple(_expand_stmt(s, table) for s in stmt[1]))
    if k == "loop":
        return ("loop", stmt[1], _expand_stmt(stmt[2], table))
    if k == "sub":
        return ("sub", stmt[1], tuple(_expand_stmt(s, table) for s in stmt[2]))
    raise ValueError(stmt)


def expand(body, macros=()):
    """Body with every macro call replaced by the (recursively expanded, argument-substituted)
    block of the macro.  `macros`: ('macro', name, params, block) items regarded as defined, in
    that order, before the body; macro definitions found in `body` itself take effect for the
    statements after them (a name denotes a macro only if it was defined earlier in the text)."""
    table = {}
    out = []
    for m in macros:
        table[m[1]] = (tuple(m[2]), _expand_stmt(m[3], dict(table)))
    for s in body:
        if s[0] == "macro":
            table[s[1]] = (tuple(s[2]), _expand_stmt(s[3], dict(table)))
        else:
            out.append(_expand_stmt(s, table))
    return tuple(out)


# ------------------------------------------------------------------------ flat order
def _flat_stmt(s, out):
    k = s[0]
    if k == "gate":
        out.append(s)
    elif k in ("seq", "par"):
        for c in s[1]:
            _flat_stmt(c, out)
    elif k == "loop":
        _flat_stmt(s[2], out)
    elif k == "sub":
        out.append(_PREPARE)
        for c in s[2]:
            _flat_stmt(c, out)
        out.append(_MEASURE)
    else:
        raise ValueError(s)


def flat(body, macros=()):
    """Gate statements in textual order, macros expanded, loops ignored (a subcircuit block
    contributes its prepare_all and measure_all)."""
    out = []
    for s in expand(body, macros):
        _flat_stmt(s, out)
    return tuple(out)


def count_of(c, env=None):
    """A loop count: literal, or a let name looked up in env."""
    if isinstance(c, str):
        if env is None or c not in env:
            raise ValueError("loop count %r is not bound" % (c,))
        c = env[c]
    if isinstance(c, bool) or not isinstance(c, int):
        if isinstance(c, float) and c == int(c):
            c = int(c)
        else:
            raise ValueError("loop count %r is not an integer" % (c,))
    if c < 0:
        raise ValueError("negative loop count %r" % (c,))
    return c


# ------------------------------------------------------------------------ linearisation
def _linear(body, env, macros):
    """-> (names, loops, tree)
    names : gate names in flat order (position = index)
    loops : (count, first position, one past the last position) per loop statement
    tree  : the same program as nested ('g', position) / ('b', [..]) / ('l', count, [..])"""
    names = []
    loops = []

    def conv(s):
        k = s[0]
        if k == "gate":
            names.append(s[1])
            return ("g", len(names) - 1)
        if k in ("seq", "par"):
            return ("b", [conv(c) for c in s[1]])
        if k == "sub":
            names.append(P_GATE)
            first = ("g", len(names) - 1)
            inner = [conv(c) for c in s[2]]
            names.append(M_GATE)
            return ("b", [first] + inner + [("g", len(names) - 1)])
        if k == "loop":
            n = count_of(s[1], env)
            start = len(names)
            inner = conv(s[2])
            loops.append((n, start, len(names)))
            return ("l", n, [inner])
        raise ValueError(s)

    tree = [conv(s) for s in expand(body, macros)]
    return names, loops, tree


def _scan(names):
    """The bracket scan in flat order.  -> (reason or None, pairs).
    every gate lies between a prepare_all and the following measure_all; every measure_all is
    preceded by a prepare_all (one that is still open: a measure_all consumes its prepare_all);
    a prepare_all met while one is open restarts the subcircuit (the gates so far are discarded);
    a trailing open prepare_all yields nothing."""
    opened = None
    pairs = []
    for pos, name in enumerate(names):
        if name == P_GATE:
            opened = pos
        elif name == M_GATE:
            if opened is None:
                return "measure_all without an open prepare_all", pairs
            pairs.append((opened, pos))
            opened = None
        elif opened is None:
            return "gate outside prepare_all ... measure_all", pairs
    return None, pairs


def judge(body, env=None, macros=()):
    """The C12 acceptance rule with its working.  -> dict(ok, reason, pairs, names, loops)."""
    names, loops, tree = _linear(body, env, macros)
    reason, pairs = _scan(names)
    if reason is None:
        for n, start, stop in loops:
            if n > 1:
                for p, m in pairs:
                    # a measure_all inside a repeating loop closing a subcircuit opened before
                    # the loop body began
                    if start <= m < stop and p < start:
                        reason = "a repeating loop closes a subcircuit opened before it"
                        break
            if reason:
                break
    return {"ok": reason is None, "reason": reason, "pairs": pairs, "names": names, "loops": loops, "tree": tree}


def accepts(body, env=None, macros=()):
    """-> (accepted?, number of subcircuits).  The number is 0 for a rejected program."""
    j = judge(body, env, macros)
    return (True, len(j["pairs"])) if j["ok"] else (False, 0)


def accepts2(body, env=None, macros=()):
    """Second formulation of the same rule, structural instead of positional: walk the tree with
    the stack of enclosing *repeating* loops; an open subcircuit remembers the set of repeating
    loops that enclosed its prepare_all; a measure_all is illegal if some repeating loop encloses
    it but not the prepare_all it closes."""
    state = {"open": None, "n": 0, "ids": 0}

    class Reject(Exception):
        pass

    def gate(name, enclosing):
        if name == P_GATE:
            state["open"] = frozenset(enclosing)
        elif name == M_GATE:
            if state["open"] is None:
                raise Reject()
            if not set(enclosing) <= state["open"]:
                raise Reject()
            state["n"] += 1
            state["open"] = None
        elif state["open"] is None:
            raise Reject()

    def walk(s, enclosing):
        k = s[0]
        if k == "gate":
            gate(s[1], enclosing)
        elif k in ("seq", "par"):
            for c in s[1]:
                walk(c, enclosing)
        elif k == "sub":
            gate(P_GATE, enclosing)
            for c in s[2]:
                walk(c, enclosing)
            gate(M_GATE, enclosing)
        elif k == "loop":
            if count_of(s[1], env) > 1:
                state["ids"] += 1
                walk(s[2], enclosing + (state["ids"],))
            else:
                walk(s[2], enclosing)
        else:
            raise ValueError(s)

    try:
        for s in expand(body, macros):
            walk(s, ())
    except Reject:
        return (False, 0)
    return (True, state["n"])


# ------------------------------------------------------------------------ execution
def visits(body, env=None, macros=()):
    """Flat-order subcircuit indices in execution order: all loops unrolled (count 0 => nothing),
    the index of the enclosing prepare/measure pair emitted at every executed measure_all."""
    j = judge(body, env, macros)
    if not j["ok"]:
        raise ValueError("not an accepted program: %s" % j["reason"])
    closing = {m: i for i, (_p, m) in enumerate(j["pairs"])}
    names = j["names"]
    out = []

    def run(node):
        k = node[0]
        if k == "g":
            if names[node[1]] == M_GATE:
                out.append(closing[node[1]])
        elif k == "b":
            for c in node[1]:
                run(c)
        else:
            for _ in range(node[1]):
                for c in node[2]:
                    run(c)

    for t in j["tree"]:
        run(t)
    return out


def executed(body, env=None, macros=()):
    """The executed gate positions (flat-order positions, loops unrolled) - the raw trace from
    which `visits` is read off; used to tell whether the unrolled execution is itself
    well-bracketed (it need not be when a subcircuit straddles a loop boundary)."""
    names, _loops, tree = _linear(body, env, macros)
    out = []

    def run(node):
        k = node[0]
        if k == "g":
            out.append(node[1])
        elif k == "b":
            for c in node[1]:
                run(c)
        else:
            for _ in range(node[1]):
                for c in node[2]:
                    run(c)

    for t in tree:
        run(t)
    return names, out


def coherent(body, env=None, macros=()):
    """True iff three ways of counting visits on the unrolled execution agree:
    (A) the pair index at every executed measure_all (this is `visits`);
    (B) the pair index at every executed prepare_all that opens a pair of the text;
    (C) the prepare/measure pairs found by bracket-scanning the *unrolled* gate sequence, each
        of which must join the two partners of one pair of the text.
    They agree on every program whose subcircuits do not straddle a loop boundary; where a
    subcircuit is opened inside a loop and closed outside (or the other way round) they may
    differ, and then "one readout per visit" has no single reading."""
    j = judge(body, env, macros)
    if not j["ok"]:
        return False
    index_of_m = {m: i for i, (_p, m) in enumerate(j["pairs"])}
    index_of_p = {p: i for i, (p, _m) in enumerate(j["pairs"])}
    partner = {m: p for p, m in j["pairs"]}
    names, trace = executed(body, env, macros)
    a = [index_of_m[pos] for pos in trace if names[pos] == M_GATE]
    b = [index_of_p[pos] for pos in trace if pos in index_of_p]
    c = []
    opened = None
    for pos in trace:
        if names[pos] == P_GATE:
            opened = pos
        elif names[pos] == M_GATE:
            if opened is None or partner[pos] != opened:
                return False
            c.append(index_of_m[pos])
            opened = None
    return a == b == c


def program_parts(prog):
    """('prog', header, body) -> (env of declared lets, macro items, body statements)"""
    _, header, body = prog
    env = {h[1]: h[2] for h in header if h[0] == "let"}
    macros = tuple(s for s in body if s[0] == "macro")
    stmts = tuple(s for s in body if s[0] != "macro")
    return env, macros, stmts
