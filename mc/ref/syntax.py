"""Reference syntax of Jaqal for property C02 (written from the property statement and the
grammar in DESIGN.md section 5/C02, not from the implementation's sly grammar).

Three independent pieces:

* ``lex``          - reference lexer (token alphabet, blanks/tabs, ``//`` comments, non-nesting
                     ``/* */`` comments that end at the FIRST ``*/``), with source positions;
* ``delta`` & co.  - a hand-written deterministic pushdown recogniser / tree builder over token
                     kinds.  A *configuration* is ``(in_body, frames, mode)``: whether a body
                     statement has been seen, the stack of open blocks and the position inside the
                     current statement.  Every reachable configuration has a completion
                     (``close``), hence the first token without a transition is the *first
                     offending token* (viable-prefix property).  ``delta_relaxed`` is the same
                     automaton for a superset language (any statement in any list); it never
                     judges a text, it only proposes continuations beyond a context-offending token;
* ``Earley``       - an Earley recogniser over an explicit BNF of the same grammar, used only by
                     ``selfcheck`` to keep the pushdown recogniser honest.

Outside the alphabet (never derivable here): ``branch``/case, BININT, ``import .. as``, ``,``.
"""
import re
from collections import namedtuple

# =============================================================================== lexer
KEYWORDS = ("register", "map", "let", "macro", "loop", "from", "usepulses", "subcircuit")
RESERVED = ("import", "as", "branch")  # reserved words of the language that are outside the alphabet
PUNCT = "<>|{};[]*:,"

Tok = namedtuple("Tok", "kind value text offset line col")
Lexeme = namedtuple("Lexeme", "cls text offset")  # cls: 'tok' | 'blank' | 'line-comment' | 'block-comment'

_IDENT = r"[A-Za-z_][A-Za-z0-9_]*(?:\.[A-Za-z0-9_]+)*"
_RE_IDENT = re.compile(_IDENT)
_RE_DOTIDENT = re.compile(r"\.(?:%s)?" % _IDENT)
_RE_NUMBER = re.compile(r"[-+]?[0-9]*\.[0-9]+(?:[eE][-+]?[0-9]+)?")
_RE_INT = re.compile(r"[-+]?[0-9]+")
_RE_BININT = re.compile(r"'[01]+'")


def lexemes(text):
    """Split `text` into lexemes (tokens and trivia), left to right, never failing.

    Characters that start no token become one-character tokens of kind ILLEGAL (this includes the
    ``/`` of a block comment that is never closed)."""
    out = []
    i, n = 0, len(text)
    while i < n:
        c = text[i]
        if c == " " or c == "\t":
            j = i
            while j < n and text[j] in " \t":
                j += 1
            out.append(Lexeme("blank", text[i:j], i))
            i = j
            continue
        if c == "\n":
            out.append(Lexeme("tok", "\n", i))
            i += 1
            continue
        if c == "/" and text.startswith("//", i):
            j = text.find("\n", i)
            if j < 0:
                j = n
            out.append(Lexeme("line-comment", text[i:j], i))
            i = j
            continue
        if c == "/" and text.startswith("/*", i):
            j = text.find("*/", i + 2)
            if j >= 0:
                out.append(Lexeme("block-comment", text[i:j + 2], i))
                i = j + 2
                continue
            out.append(Lexeme("tok", c, i))  # ILLEGAL: unterminated comment
            i += 1
            continue
        m = None
        if c.isalpha() or c == "_":
            m = _RE_IDENT.match(text, i)
        elif c in "+-.0123456789":
            m = _RE_NUMBER.match(text, i) or _RE_INT.match(text, i)
            if m is None and c == ".":
                m = _RE_DOTIDENT.match(text, i)
        elif c == "'":
            m = _RE_BININT.match(text, i)
        if m is not None and m.end() > i:
            out.append(Lexeme("tok", m.group(0), i))
            i = m.end()
            continue
        out.append(Lexeme("tok", c, i))  # punctuation or ILLEGAL
        i += 1
    return out


def classify(t):
    """token text -> (kind, value)"""
    if t == "\n":
        return "NL", "\n"
    c = t[0]
    if c.isalpha() or c == "_":
        if t in KEYWORDS or t in RESERVED:
            return t, t
        return "IDENT", t
    if len(t) == 1 and t in PUNCT:
        return t, t
    if c == "'" and len(t) > 1:
        return "BININT", t
    if _RE_NUMBER.fullmatch(t):
        return "NUMBER", float(t)
    if _RE_INT.fullmatch(t):
        return "INT", int(t)
    if c == "." and _RE_DOTIDENT.fullmatch(t):
        return "DOTIDENT", t
    return "ILLEGAL", t


def lex(text):
    """Reference lexer: list of Tok with 1-based line/column of each token start."""
    toks = []
    line, linestart = 1, 0  # linestart: offset of the first character of the current line
    for lx in lexemes(text):
        if lx.cls == "tok":
            t = lx.text
            if t == "\n":
                toks.append(Tok("NL", "\n", t, lx.offset, line, lx.offset - linestart + 1))
                line += 1
                linestart = lx.offset + 1
            else:
                kind, value = classify(t)
                toks.append(Tok(kind, value, t, lx.offset, line, lx.offset - linestart + 1))
        elif lx.cls == "block-comment":
            n = lx.text.count("\n")
            if n:
                line += n
                linestart = lx.offset + lx.text.rfind("\n") + 1
    return toks


def end_position(text):
    """(line, column) of the position just past the last character."""
    return text.count("\n") + 1, len(text) - text.rfind("\n")


# =============================================================================== pushdown recogniser
# configuration = (in_body, frames, mode)
#   frames : tuple of 'T' (top level) | 'S' 'P' (plain { } / < > statement) | 'Sl' 'Pl' (loop body)
#            | 'Sm' 'Pm' (macro body) | 'Ss' (subcircuit body)
#   mode   : position inside the innermost statement list / statement
INITIAL = (False, ("T",), "item?")

# modes in which the current statement may end without a token of its own
_OPEN_ENDED = ("gate0", "gateI", "gateN", "map2")
_LIST_MODES = ("item?", "after")

_HEADER_START = {"register": "reg0", "let": "let0", "map": "map0", "from": "from0"}
_HEADER_NODE = {"register": "register", "let": "let", "map": "map", "from": "usepulses"}
_LOI = ("IDENT", "INT")

# builder actions: ('O', head) open node (head,) | ('OV', head) open node (head, value) | ('V',) append
# value | ('C', const) append constant | ('E',) end node (append it to its parent) | ('X',) turn
# the last argument of the open gate into an open array_item node


def _end_of_statement(in_body, frames, kind, pre, relaxed=False):
    """Behaviour after a complete statement: a separator, or the end of the enclosing block."""
    ctx = frames[-1][0]
    if kind == "NL" or (kind == ";" and ctx in "TS") or (kind == "|" and ctx == "P") or (relaxed and kind in (";", "|")):
        return (in_body, frames, "item?"), pre
    if (kind == "}" and ctx == "S") or (kind == ">" and ctx == "P"):
        owner = frames[-1][1:]
        acts = pre + ((("E",), ("E",)) if owner in ("l", "m") else (("E",),))
        return (in_body, frames[:-1], "after"), acts
    return None


def _start_of_item(in_body, frames, kind, relaxed=False):
    ctx = frames[-1][0]
    body = True if ctx == "T" else in_body
    R = relaxed  # the superset language: any statement in any list context
    if kind == "IDENT":
        return (body, frames, "gate0"), (("OV", "gate"),)
    if kind == "{" and (R or ctx in "TP"):
        return (body, frames + ("S",), "item?"), (("O", "sequential_block"),)
    if kind == "<" and (R or ctx in "TS"):
        return (body, frames + ("P",), "item?"), (("O", "parallel_block"),)
    if kind == "loop" and (R or ctx in "TS"):
        return (body, frames, "loop0"), (("O", "loop"),)
    if kind == "subcircuit" and (R or ctx in "TS"):
        return (body, frames, "sub0"), (("O", "subcircuit_block"),)
    if kind == "macro" and (R or ctx == "T"):
        return (body, frames, "macro0"), (("O", "macro"),)
    if kind in _HEADER_START and (R or (ctx == "T" and not in_body)):
        return (in_body, frames, _HEADER_START[kind]), (("O", _HEADER_NODE[kind]),)
    return None


def _delta(config, kind, relaxed=False):
    in_body, frames, mode = config
    V, E = ("V",), ("E",)

    def to(m, *acts):
        return (in_body, frames, m), acts

    if mode == "item?":
        return _end_of_statement(in_body, frames, kind, (), relaxed) or _start_of_item(in_body, frames, kind, relaxed)
    if mode == "after":
        return _end_of_statement(in_body, frames, kind, (), relaxed)
    # ---- gate statement: IDENT { IDENT | INT | NUMBER | IDENT '[' (IDENT | INT) ']' }
    if mode in ("gate0", "gateI", "gateN"):
        if kind == "IDENT":
            return to("gateI", V)
        if kind in ("INT", "NUMBER"):
            return to("gateN", V)
        if kind == "[" and mode == "gateI":
            return to("gate[", ("X",))
        return _end_of_statement(in_body, frames, kind, (E,), relaxed)
    if mode == "gate[":
        return to("gate[x", V) if kind in _LOI else None
    if mode == "gate[x":
        return to("gateN", E) if kind == "]" else None
    # ---- register IDENT '[' loi ']'
    if mode == "reg0":
        return to("reg1", V) if kind == "IDENT" else None
    if mode == "reg1":
        return to("reg2") if kind == "[" else None
    if mode == "reg2":
        return to("reg3", V) if kind in _LOI else None
    if mode == "reg3":
        return to("after", E) if kind == "]" else None
    # ---- let IDENT (INT | NUMBER)
    if mode == "let0":
        return to("let1", V) if kind == "IDENT" else None
    if mode == "let1":
        return to("after", V, E) if kind in ("INT", "NUMBER") else None
    # ---- map IDENT IDENT [ '[' ( loi | [loi] ':' [loi] [ ':' loi ] ) ']' ]
    if mode == "map0":
        return to("map1", V) if kind == "IDENT" else None
    if mode == "map1":
        return to("map2", V) if kind == "IDENT" else None
    if mode == "map2":
        if kind == "[":
            return to("map[")
        return _end_of_statement(in_body, frames, kind, (E,), relaxed)
    if mode == "map[":
        if kind in _LOI:
            return to("map[a", V)
        if kind == ":":
            return to("map[a:", ("C", None))
        return None
    if mode == "map[a":
        if kind == "]":
            return to("after", E)
        if kind == ":":
            return to("map[a:")
        return None
    if mode == "map[a:":
        if kind in _LOI:
            return to("map[a:b", V)
        if kind == ":":
            return to("map[a:b:", ("C", None))
        if kind == "]":
            return to("after", ("C", None), ("C", None), E)
        return None
    if mode == "map[a:b":
        if kind == ":":
            return to("map[a:b:")
        if kind == "]":
            return to("after", ("C", None), E)
        return None
    if mode == "map[a:b:":
        return to("map[a:b:c", V) if kind in _LOI else None
    if mode == "map[a:b:c":
        return to("after", E) if kind == "]" else None
    # ---- from (IDENT | DOTIDENT) usepulses '*'
    if mode == "from0":
        return to("from1", V) if kind in ("IDENT", "DOTIDENT") else None
    if mode == "from1":
        return to("from2") if kind == "usepulses" else None
    if mode == "from2":
        return to("after", ("C", "*"), E) if kind == "*" else None
    # ---- loop loi (seq | par)
    if mode == "loop0":
        return to("loop1", V) if kind in _LOI else None
    if mode == "loop1":
        if kind == "{":
            return (in_body, frames + ("Sl",), "item?"), (("O", "sequential_block"),)
        if kind == "<":
            return (in_body, frames + ("Pl",), "item?"), (("O", "parallel_block"),)
        return None
    # ---- subcircuit [loi] seq-body
    if mode == "sub0":
        if kind in _LOI:
            return to("sub1", V)
        if kind == "{":
            return (in_body, frames + ("Ss",), "item?"), (("C", ""),)
        return None
    if mode == "sub1":
        return ((in_body, frames + ("Ss",), "item?"), ()) if kind == "{" else None
    # ---- macro IDENT { IDENT } (seq | par)
    if mode == "macro0":
        return to("macro1", V) if kind == "IDENT" else None
    if mode == "macro1":
        if kind == "IDENT":
            return to("macro1", V)
        if kind == "{":
            return (in_body, frames + ("Sm",), "item?"), (("O", "sequential_block"),)
        if kind == "<":
            return (in_body, frames + ("Pm",), "item?"), (("O", "parallel_block"),)
        return None
    raise AssertionError("unknown mode %r" % (mode,))


_DELTA = {}


def delta(config, kind):
    """One token: -> (configuration', builder actions) or None if `kind` is offending here."""
    key = (config, kind)
    try:
        return _DELTA[key]
    except KeyError:
        r = _DELTA[key] = _delta(config, kind)
        return r


_DELTA_RELAXED = {}


def delta_relaxed(config, kind):
    """The same automaton for a *superset* language in which every kind of statement (header
    statements included) may stand in every statement list and `;` / `|` separate anywhere.
    It never judges a text; the check uses it to extend a prefix beyond a token that is offending
    only because of its context, so that a parser which wrongly shifts such a token is exposed by
    accepting the completed text."""
    key = (config, kind)
    try:
        return _DELTA_RELAXED[key]
    except KeyError:
        r = _DELTA_RELAXED[key] = _delta(config, kind, True)
        return r


def eof_ok(config):
    """Is the token string read so far derivable (may the input end here)?"""
    _in_body, frames, mode = config
    return len(frames) == 1 and (mode in _LIST_MODES or mode in _OPEN_ENDED)


# ---- tree builder (persistent: the value stack is a tuple of partial nodes, each a tuple)
BUILD0 = (("circuit",),)


def build_step(vstack, actions, value):
    for a in actions:
        op = a[0]
        if op == "V":
            vstack = vstack[:-1] + (vstack[-1] + (value,),)
        elif op == "E":
            vstack = vstack[:-2] + (vstack[-2] + (vstack[-1],),)
        elif op == "O":
            vstack = vstack + ((a[1],),)
        elif op == "OV":
            vstack = vstack + ((a[1], value),)
        elif op == "C":
            vstack = vstack[:-1] + (vstack[-1] + (a[1],),)
        elif op == "X":
            g = vstack[-1]
            vstack = vstack[:-1] + (g[:-1], ("array_item", g[-1]))
        else:
            raise AssertionError(a)
    return vstack


def build_finish(config, vstack):
    """The statement tree of a derivable token string (same shape as render.sexpr)."""
    assert eof_ok(config)
    if config[2] in _OPEN_ENDED:
        vstack = build_step(vstack, (("E",),), None)
    assert len(vstack) == 1, vstack
    return vstack[0]


Result = namedtuple("Result", "ok tree error_index configs")


def recognise(tokens):
    """tokens: sequence of Tok or of (kind, value) pairs.

    -> Result(ok=True, tree, None, configs) if derivable, else Result(False, None, i, configs) where
    i is the index of the first offending token (len(tokens) = the end of input is offending).
    configs[k] is the configuration after k tokens."""
    config, vs = INITIAL, BUILD0
    configs = [config]
    for i, t in enumerate(tokens):
        r = delta(config, t[0])
        if r is None:
            return Result(False, None, i, configs)
        config, acts = r
        if acts:
            vs = build_step(vs, acts, t[1])
        configs.append(config)
    if not eof_ok(config):
        return Result(False, None, len(tokens), configs)
    return Result(True, build_finish(config, vs), None, configs)


def recognise_text(text):
    return recognise(lex(text))


# ---- shortest completion
_CLOSE_MODE = {
    "item?": (), "after": (), "gate0": (), "gateI": (), "gateN": (), "map2": (),
    "gate[": ("INT", "]"), "gate[x": ("]",),
    "reg0": ("IDENT", "[", "INT", "]"), "reg1": ("[", "INT", "]"), "reg2": ("INT", "]"), "reg3": ("]",),
    "let0": ("IDENT", "INT"), "let1": ("INT",),
    "map0": ("IDENT", "IDENT"), "map1": ("IDENT",),
    "map[": ("INT", "]"), "map[a": ("]",), "map[a:": ("]",), "map[a:b": ("]",),
    "map[a:b:": ("INT", "]"), "map[a:b:c": ("]",),
    "from0": ("IDENT", "usepulses", "*"), "from1": ("usepulses", "*"), "from2": ("*",),
    "loop0": ("INT", "{", "}"), "loop1": ("{", "}"),
    "sub0": ("{", "}"), "sub1": ("{", "}"),
    "macro0": ("IDENT", "{", "}"), "macro1": ("{", "}"),
}


def close_kinds(config):
    """A shortest sequence of token kinds that completes `config` to a derivable string."""
    _in_body, frames, mode = config
    out = list(_CLOSE_MODE[mode])
    for f in reversed(frames[1:]):
        out.append("}" if f[0] == "S" else ">")
    return tuple(out)


def config_after(kinds, start=INITIAL):
    """Configuration after a viable sequence of kinds, or None (with the offending index)."""
    c = start
    for i, k in enumerate(kinds):
        r = delta(c, k)
        if r is None:
            return None, i
        c = r[0]
    return c, None


def close(prefix_kinds):
    c, bad = config_after(prefix_kinds)
    if c is None:
        raise ValueError("prefix is not viable at token %d" % bad)
    return close_kinds(c)


# =============================================================================== alphabet (space 1/2)
ALPHABET = KEYWORDS + ("a", "q", "1", "0.5", ".m", "<", ">", "|", "{", "}", ";", "[", "]", "*", ":", "\n")
KIND_TEXT = {"IDENT": "a", "INT": "1", "NUMBER": "0.5", "DOTIDENT": ".m", "NL": "\n"}
KINDS = tuple(sorted(set(classify(t)[0] for t in ALPHABET)))


def kind_text(kind):
    return KIND_TEXT.get(kind, kind)


def join(texts):
    """Canonical layout of a token string: one blank between tokens."""
    return " ".join(texts)


# =============================================================================== Earley (self-check only)
def _bnf():
    g = {}

    def rule(lhs, *alts):
        g[lhs] = [tuple(a.split()) for a in alts]

    rule("program", "pad", "pad hlist pad", "pad blist pad", "pad hlist sep blist pad")
    rule("pad", "", "sep")
    rule("sep", "sepc", "sep sepc")
    rule("sepc", "NL", ";")
    rule("hlist", "header", "hlist sep header")
    rule("blist", "top", "blist sep top")
    rule("header", "register", "let", "map", "usepulses")
    rule("top", "gate", "seq", "par", "sub", "loop", "macro")
    rule("register", "REGISTER IDENT [ loi ]")
    rule("loi", "INT", "IDENT")
    rule("let", "LET IDENT INT", "LET IDENT NUMBER")
    rule("map", "MAP IDENT IDENT", "MAP IDENT IDENT [ mapidx ]")
    rule("mapidx", "loi", "optloi : optloi", "optloi : optloi : loi")
    rule("optloi", "", "loi")
    rule("usepulses", "FROM IDENT USEPULSES *", "FROM DOTIDENT USEPULSES *")
    rule("gate", "IDENT args")
    rule("args", "", "args arg")
    rule("arg", "IDENT", "INT", "NUMBER", "IDENT [ IDENT ]", "IDENT [ INT ]")
    rule("seq", "{ pad }", "{ pad slist pad }")
    rule("slist", "sitem", "slist sep sitem")
    rule("sitem", "gate", "par", "loop", "sub")
    rule("par", "< ppad >", "< ppad plist ppad >")
    rule("ppad", "", "psep")
    rule("psep", "psepc", "psep psepc")
    rule("psepc", "NL", "|")
    rule("plist", "pitem", "plist psep pitem")
    rule("pitem", "gate", "seq")
    rule("sub", "SUBCIRCUIT seq", "SUBCIRCUIT loi seq")
    rule("loop", "LOOP loi seq", "LOOP loi par")
    rule("macro", "MACRO IDENT params seq", "MACRO IDENT params par")
    rule("params", "", "params IDENT")
    return g


_TERMINAL_OF_KIND = {k: k.upper() for k in KEYWORDS}


class Earley:
    """Textbook Earley recogniser (with the nullable fix of Aycock & Horspool), incremental: the
    chart is a stack so that a depth-first walk over token strings shares prefixes."""

    def __init__(self, grammar=None, start="program"):
        self.g = grammar or _bnf()
        self.start = start
        self.prods = []
        self.by_lhs = {}
        for lhs, alts in self.g.items():
            for rhs in alts:
                self.by_lhs.setdefault(lhs, []).append(len(self.prods))
                self.prods.append((lhs, rhs))
        self.nullable = set()
        changed = True
        while changed:
            changed = False
            for lhs, rhs in self.prods:
                if lhs not in self.nullable and all(s in self.nullable for s in rhs):
                    self.nullable.add(lhs)
                    changed = True
        # reducedness: every nonterminal productive and reachable (needed for the viable-prefix claim)
        productive = set()
        changed = True
        while changed:
            changed = False
            for lhs, rhs in self.prods:
                if lhs not in productive and all(s not in self.g or s in productive for s in rhs):
                    productive.add(lhs)
                    changed = True
        reach, todo = {start}, [start]
        while todo:
            for rhs in self.g[todo.pop()]:
                for s in rhs:
                    if s in self.g and s not in reach:
                        reach.add(s)
                        todo.append(s)
        assert productive == set(self.g) == reach, "BNF is not reduced"
        self.chart = []
        self.reset()

    def _closure(self, items, k):
        S = list(items)
        seen = set(S)
        i = 0
        while i < len(S):
            p, d, o = S[i]
            i += 1
            lhs, rhs = self.prods[p]
            if d < len(rhs):
                sym = rhs[d]
                if sym in self.g:  # predict
                    for q in self.by_lhs[sym]:
                        it = (q, 0, k)
                        if it not in seen:
                            seen.add(it)
                            S.append(it)
                    if sym in self.nullable:
                        it = (p, d + 1, o)
                        if it not in seen:
                            seen.add(it)
                            S.append(it)
            else:  # complete
                src = S if o == k else self.chart[o]
                for (p2, d2, o2) in list(src):
                    rhs2 = self.prods[p2][1]
                    if d2 < len(rhs2) and rhs2[d2] == lhs:
                        it = (p2, d2 + 1, o2)
                        if it not in seen:
                            seen.add(it)
                            S.append(it)
        return S

    def reset(self):
        self.chart = []
        self.chart.append(self._closure([(q, 0, 0) for q in self.by_lhs[self.start]], 0))

    def push(self, kind):
        """Scan one token; returns False (and leaves the chart unchanged) if the prefix dies."""
        term = _TERMINAL_OF_KIND.get(kind, kind)
        k = len(self.chart)
        nxt = []
        for (p, d, o) in self.chart[-1]:
            rhs = self.prods[p][1]
            if d < len(rhs) and rhs[d] == term:
                nxt.append((p, d + 1, o))
        if not nxt:
            return False
        self.chart.append(None)
        self.chart[k] = self._closure(nxt, k)
        return True

    def pop(self):
        self.chart.pop()

    def accepts_here(self):
        for (p, d, o) in self.chart[-1]:
            lhs, rhs = self.prods[p]
            if lhs == self.start and o == 0 and d == len(rhs):
                return True
        return False

    def run(self, kinds):
        """-> (accepted, index of the first token after which nothing is derivable, or None)"""
        self.reset()
        for i, k in enumerate(kinds):
            if not self.push(k):
                return False, i
        return (True, None) if self.accepts_here() else (False, len(kinds))


# =============================================================================== self-check
# reduced alphabets for the exhaustive cross-check: together they contain every token kind and
# every production; each is small enough for all strings up to length 5.
_REDUCED = (
    ("IDENT", "INT", "{", "}", "<", ">", "|", ";", "NL", "loop", "[", "]"),
    ("IDENT", "INT", "NUMBER", "{", "}", "<", ">", "subcircuit", "macro", "let", "NL", "loop"),
    ("register", "map", "IDENT", "INT", "[", "]", ":", ";", "NL", "{", "NUMBER"),
    ("from", "usepulses", "*", "IDENT", "DOTIDENT", "let", "NUMBER", "INT", "NL", ";", "<", ">", "|"),
)

# AST (mc.ref.ast tuples) programs whose canonical text must build back to render.sexpr
_ROUNDTRIP = (
    ("prog", (), ()),
    ("prog", (("usepulses", "a.b"), ("usepulses", ".m"), ("let", "n", 2), ("let", "x", -0.5), ("let", "y", 1.5e-07),
              ("register", "q", "n"), ("register", "r", 3), ("map", "a", "q"), ("map", "b", "q", 1), ("map", "c", "q", "n"),
              ("map", "d", "q", None, None, None), ("map", "e", "q", 0, "n", 2), ("map", "f", "q", None, 2, None),
              ("map", "h", "q", 1, None, None), ("map", "i", "q", None, None, -1), ("map", "j", "q", "n", None, 1)),
     (("macro", "m", ("p", "r"), ("seq", (("gate", "g", ("p", ("item", "q", "r"), 0.25)),))),
      ("macro", "m2", (), ("par", (("gate", "g", ()), ("seq", (("gate", "h", (1,)),))))),
      ("gate", "g", ("a", ("item", "q", 1), ("item", "q", "n"), 3, -2.5, "x")),
      ("seq", (("gate", "g", ()), ("par", (("gate", "h", ()), ("seq", ()))), ("loop", "n", ("seq", (("gate", "g", ()),))),
               ("sub", None, (("gate", "g", ()),)), ("sub", 3, ()), ("sub", "n", (("par", ()),)))),
      ("par", (("gate", "g", ()), ("seq", (("loop", 2, ("par", (("gate", "g", ()),))),)))),
      ("loop", 2, ("par", ())),
      ("sub", 2, (("loop", 1, ("seq", (("sub", None, ()),))),)))),
)


def _walk_crosscheck(kinds_alphabet, maxlen, earley, stats):
    """All strings over the alphabet up to maxlen.  Both recognisers are prefix-determined (after
    the first offending token the verdict is fixed), so strings with a dead proper prefix need no
    separate run: the walk visits every viable prefix and tries every next token on it."""

    def rec(config, depth, word):
        # acceptance of the word itself
        a_pd = eof_ok(config)
        a_ea = earley.accepts_here()
        stats["strings"] += 1
        if a_pd != a_ea:
            raise AssertionError("acceptance differs on %r: pushdown %s, Earley %s" % (word, a_pd, a_ea))
        if depth == maxlen:
            return
        for k in kinds_alphabet:
            r = delta(config, k)
            alive = earley.push(k)
            if (r is not None) != alive:
                raise AssertionError(
                    "viability differs on %r + %r: pushdown %s, Earley %s" % (word, k, r is not None, alive))
            if alive:
                rec(r[0], depth + 1, word + (k,))
                earley.pop()
            else:
                stats["strings"] += 1  # the dead string itself (all its extensions die at the same token)
                stats["dead"] += 1

    earley.reset()
    rec(INITIAL, 0, ())


def _shortest_completion_length(config, limit):
    """Breadth-first search over configurations (independent of close_kinds)."""
    seen = {config}
    frontier = [config]
    for n in range(limit + 1):
        if any(eof_ok(c) for c in frontier):
            return n
        nxt = []
        for c in frontier:
            for k in KINDS:
                r = delta(c, k)
                if r is not None and r[0] not in seen:
                    seen.add(r[0])
                    nxt.append(r[0])
        frontier = nxt
    return None


def selfcheck(maxlen=5, full_maxlen=3):
    """Raise AssertionError if the model is inconsistent with itself. Returns statistics.

    full_maxlen: length bound for the cross-check over the full alphabet of token kinds;
    maxlen: length bound over each of the reduced alphabets."""
    from . import render

    stats = {"strings": 0, "dead": 0, "configs": 0, "close_checked": 0, "roundtrips": 0}
    earley = Earley()
    assert set(k for alpha in _REDUCED for k in alpha) == set(KINDS), "reduced alphabets miss a token kind"
    # (1) pushdown vs Earley: acceptance and first offending token
    _walk_crosscheck(KINDS, full_maxlen, earley, stats)
    for alpha in _REDUCED:
        _walk_crosscheck(alpha, maxlen, earley, stats)
    # (2) close(): a completion, and a shortest one, for every configuration met within 4 tokens
    seen = {INITIAL}
    frontier = [INITIAL]
    for _ in range(4):
        nxt = []
        for c in frontier:
            for k in KINDS:
                r = delta(c, k)
                if r is not None and r[0] not in seen:
                    seen.add(r[0])
                    nxt.append(r[0])
        frontier = nxt
    for c in sorted(seen, key=repr):
        ck = close_kinds(c)
        end, bad = config_after(ck, c)
        assert end is not None and eof_ok(end), "close() does not complete %r" % (c,)
        assert _shortest_completion_length(c, len(ck)) == len(ck), "close() is not shortest for %r" % (c,)
        stats["close_checked"] += 1
    stats["configs"] = len(seen)
    # (3) lexer + tree builder against the independent renderer
    for p in _ROUNDTRIP:
        text = render.text(p)
        res = recognise_text(text)
        assert res.ok, ("round trip rejected", text, res.error_index)
        assert res.tree == render.sexpr(p), ("round trip tree", text, res.tree, render.sexpr(p))
        kinds = [t.kind for t in lex(text)]
        assert earley.run(kinds) == (True, None), ("Earley rejects round trip", text)
        stats["roundtrips"] += 1
    # (4) lexer: comments and positions
    t = lex("g /* x\n * // */ h // /* c\n/**/q[ 1 ]\t.m /* a */ /* b */ 0.5e-3 -2")
    assert [x.text for x in t] == ["g", "h", "\n", "q", "[", "1", "]", ".m", "0.5e-3", "-2"], t
    assert [(x.line, x.col) for x in t[:5]] == [(1, 1), (2, 10), (2, 19), (3, 5), (3, 6)], t
    assert [x.kind for x in lex("a.b a$ /* x")] == ["IDENT", "IDENT", "ILLEGAL", "ILLEGAL", "*", "IDENT"]
    assert end_position("g\n") == (2, 1) and end_position("g") == (1, 2) and end_position("") == (1, 1)
    return stats


if __name__ == "__main__":
    import time

    t0 = time.time()
    print(selfcheck(), "%.2fs" % (time.time() - t0))
