"""Implementation IR (jaqalpaq.core.Circuit) -> the model's sym / den forms.

Only public attributes are read (constants, registers, macros, usepulses, native_gates,
body.statements, parallel, subcircuit, iterations, gate_def, parameters, alias_from,
alias_index, alias_slice, size, value, name, kind) and all arithmetic is done here: the
implementation's resolve_qubit, visitors and passes are never called.  Object references
are followed as the IR holds them, so a gate that still points at a stale (pre-override)
register is seen as such.
"""
from mc import impl
from .meaning import Invalid, as_int, norm_top, check_kind


class IRReader:
    def __init__(self, circuit, override=None, macro_binding="gate_def", natives=None):
        """macro_binding: 'gate_def' (follow the definition attached to the call) or
        'name' (look the name up in circuit.macros)"""
        self.c = circuit
        self.override = override or {}
        self.binding = macro_binding
        self.natives = natives

    # ------------------------------------------------------------ values
    def const(self, k):
        if k.name in self.override:
            return self.override[k.name]
        v = k.value
        while isinstance(v, impl.Constant):
            v = v.value
        return v

    def num(self, x, scope):
        if isinstance(x, impl.Constant):
            return self.const(x)
        if isinstance(x, impl.Parameter):
            if x.name in scope:
                return scope[x.name]
            return ("param", x.name)
        if isinstance(x, impl.AnnotatedValue):
            raise Invalid("odd-ir", "annotated value %r" % (x,))
        return x

    def cells(self, r, scope, depth=0):
        """Register | Parameter -> ('cells', ...) | ('param', name)"""
        if depth > 50:
            raise Invalid("cyclic")
        if isinstance(r, impl.Parameter):
            if r.name in scope:
                v = scope[r.name]
                if isinstance(v, tuple) and v[0] in ("cells", "param"):
                    return v
                raise Invalid("index-non-register", "parameter %s bound to %r" % (r.name, v))
            return ("param", r.name)
        if isinstance(r, impl.NamedQubit):
            raise Invalid("index-non-register", "single qubit %s used as register" % r.name)
        if not isinstance(r, impl.Register):
            raise Invalid("index-non-register", "%r used as register" % (r,))
        if r.alias_from is None:
            size = self.num(r.size, scope)
            if isinstance(size, tuple):
                raise Invalid("odd-ir", "register size %r" % (size,))
            size = as_int(size, "register size")
            if size < 1:
                raise Invalid("size", "%s[%d]" % (r.name, size))
            return ("cells", tuple((r.name, i) for i in range(size)))
        base = self.cells(r.alias_from, scope, depth + 1)
        if base[0] == "param":
            raise Invalid("odd-ir", "slice of unbound parameter")
        sl = r.alias_slice
        if sl is None:
            return base
        n = len(base[1])
        lo = 0 if sl.start is None else as_int(self.num(sl.start, scope), "slice start")
        hi = n if sl.stop is None else as_int(self.num(sl.stop, scope), "slice stop")
        st = 1 if sl.step is None else as_int(self.num(sl.step, scope), "slice step")
        if st == 0:
            raise Invalid("zero-step", r.name)
        idx = list(range(lo, hi, st))
        if any(not 0 <= j < n for j in idx):
            raise Invalid("out-of-range", "alias %s [%d:%d:%d] of %d" % (r.name, lo, hi, st, n))
        if not idx:
            raise Invalid("empty-alias", r.name)
        return ("cells", tuple(base[1][j] for j in idx))

    def qubit(self, q, scope):
        base = self.cells(q.alias_from, scope)
        i = self.num(q.alias_index, scope)
        if isinstance(i, tuple):
            if i[0] == "param":
                return ("item", base, i)
            raise Invalid("not-a-number", "index %r" % (i,))
        if base[0] == "param":
            return ("item", base, as_int(i, "index"))
        i = as_int(i, "index")
        if not 0 <= i < len(base[1]):
            raise Invalid("out-of-range", "%s: index %d of %d" % (q.name, i, len(base[1])))
        return ("q",) + base[1][i]

    def value(self, v, scope):
        if isinstance(v, impl.NamedQubit):
            return self.qubit(v, scope)
        if isinstance(v, impl.Register):
            return self.cells(v, scope)
        if isinstance(v, impl.Parameter):
            if v.name in scope:
                return scope[v.name]
            return ("param", v.name)
        if isinstance(v, impl.Constant):
            return self.const(v)
        if isinstance(v, (int, float)) and not isinstance(v, bool):
            return v
        raise Invalid("odd-ir", "gate argument %r" % (v,))

    # ------------------------------------------------------------ statements
    def macro_for(self, g):
        if self.binding == "gate_def":
            d = g.gate_def
            return d if isinstance(d, impl.Macro) else None
        return self.c.macros.get(g.name)

    def stmt(self, s, scope, depth=0):
        if isinstance(s, impl.GateStatement):
            vals = tuple(self.value(v, scope) for v in s.parameters.values())
            m = self.macro_for(s)
            if m is not None:
                names = [p.name for p in m.parameters]
                if len(names) != len(vals):
                    raise Invalid("arity", "macro %s" % s.name)
                if depth > 40:
                    raise Invalid("recursion", s.name)
                return self.stmt(m.body, dict(zip(names, vals)), depth + 1)
            if self.natives is not None:
                if s.name not in self.natives:
                    raise Invalid("unknown-gate", s.name)
                kinds = self.natives[s.name]
                if len(kinds) != len(vals):
                    raise Invalid("arity", s.name)
                for kd, v in zip(kinds, vals):
                    check_kind(kd, v, s.name)
            return ("gate", s.name, vals)
        if isinstance(s, impl.LoopStatement):
            n = self.count(s.iterations, scope)
            return ("loop", n, self.stmt(s.statements, scope, depth))
        if isinstance(s, impl.BlockStatement):
            items = tuple(self.stmt(i, scope, depth) for i in s.statements)
            if s.subcircuit:
                if s.parallel:
                    raise Invalid("odd-ir", "parallel subcircuit block")
                return ("sub", self.count(s.iterations, scope), items)
            return ("par" if s.parallel else "seq", items)
        raise Invalid("odd-ir", "statement %r" % (type(s).__name__,))

    def count(self, x, scope):
        v = self.num(x, scope)
        if isinstance(v, tuple):
            return v
        v = as_int(v, "count")
        if v < 0:
            raise Invalid("negative-count", str(v))
        return v

    def den(self):
        # declarations must be honourable too
        for r in self.c.registers.values():
            if isinstance(r, impl.NamedQubit):
                self.qubit(r, {})
            else:
                self.cells(r, {})
        return norm_top(tuple(self.stmt(s, {}) for s in self.c.body.statements))

    def try_den(self):
        try:
            return self.den()
        except Invalid as e:
            return ("invalid", e.reason, str(e))


def den(circuit, override=None, binding="gate_def", natives=None):
    return IRReader(circuit, override, binding, natives).try_den()


def den_both(circuit, override=None, natives=None):
    """the two readings the IR offers for macro calls"""
    return (den(circuit, override, "gate_def", natives), den(circuit, override, "name", natives))


# ---------------------------------------------------------------- symbolic form
def _symnum(x):
    if isinstance(x, impl.Constant):
        return ("let", x.name)
    if isinstance(x, impl.Parameter):
        return ("param", x.name)
    return x


def sym(circuit):
    c = circuit
    lets = tuple(sorted((n, k.value) for n, k in c.constants.items()))
    regs = []
    for name, r in c.registers.items():
        if isinstance(r, impl.NamedQubit):
            regs.append((name, ("alias1", r.alias_from.name, _symnum(r.alias_index))))
        elif r.alias_from is None:
            regs.append((name, ("fund", _symnum(r.size))))
        elif r.alias_slice is None:
            regs.append((name, ("alias", r.alias_from.name)))
        else:
            sl = r.alias_slice
            regs.append((name, ("slice", r.alias_from.name, _symnum(sl.start), _symnum(sl.stop), _symnum(sl.step))))
    macros = tuple(
        sorted((n, tuple(p.name for p in m.parameters), sym_stmt(c, m.body)) for n, m in c.macros.items())
    )
    body = tuple(sym_stmt(c, s) for s in c.body.statements)
    return (
        "prog",
        ("usepulses", tuple(str(u.module) for u in c.usepulses)),
        ("lets", lets),
        ("regs", tuple(sorted(regs))),
        ("macros", macros),
        ("body", body),
    )


def sym_value(c, v):
    if isinstance(v, impl.NamedQubit):
        if c.registers.get(v.name) is not None:
            return ("reg", v.name)
        return ("item", sym_value(c, v.alias_from), _symnum(v.alias_index))
    if isinstance(v, impl.Register):
        return ("reg", v.name)
    if isinstance(v, impl.Constant):
        return ("let", v.name)
    if isinstance(v, impl.Parameter):
        return ("param", v.name)
    return v


def sym_stmt(c, s):
    if isinstance(s, impl.GateStatement):
        kind = "call" if isinstance(s.gate_def, impl.Macro) else "gate"
        return (kind, s.name, tuple(sym_value(c, v) for v in s.parameters.values()))
    if isinstance(s, impl.LoopStatement):
        return ("loop", _symnum(s.iterations), sym_stmt(c, s.statements))
    if isinstance(s, impl.BlockStatement):
        items = tuple(sym_stmt(c, i) for i in s.statements)
        if s.subcircuit:
            return ("sub", _symnum(s.iterations), items)
        return ("par" if s.parallel else "seq", items)
    return ("odd", type(s).__name__)
