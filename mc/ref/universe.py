"""Shared program universe for the meaning-based checks.

1. a tree-exhaustive pool of small programs over a feature-rich header and a leaf menu,
2. deviation-bounded neighbourhoods of a base program (all combinations of <= k single-site
   deviations) - the sequential analogue of preemption bounding.

Everything is deterministic, ordered simplest first, deduplicated by canonical text, and
filtered through the model (legal nesting + valid references), so consumers get programs the
parser accepts.
"""
import itertools

from mc.combi import TreeGrammar
from . import ast as A
from . import render
from .meaning import Model, Invalid

# ---------------------------------------------------------------- vocabulary
HEADER_MIN = (("register", "q", 3),)

HEADER_RICH = (
    ("let", "n", 2),
    ("let", "k", 1),
    ("let", "x", 0.5),
    ("register", "q", 3),
    ("map", "a", "q", 0, 3, 2),  # q0, q2
    ("map", "b", "a"),  # whole alias of an alias
    ("map", "c", "q", "k"),  # single qubit by let: q1
)

MACROS = (
    A.macro("m", ("p",), A.seq(A.gate("g", "p"))),
    A.macro("m2", ("r", "t"), A.par(A.gate("g", A.item("r", 0)), A.gate("h", A.item("r", "k"), "t"))),
    A.macro("m3", ("p",), A.seq(A.gate("m", "p"), A.loop("n", A.seq(A.gate("m2", "a", "x"))))),
    # parameters as loop count, as index and as subcircuit count
    A.macro("m4", ("c", "i"), A.seq(A.loop("c", A.seq(A.gate("g", A.item("q", "i")))), A.gate("h", A.item("a", "i"), "c"))),
    # parameters shadowing header names (alias a, let n), one unused
    A.macro("m5", ("a", "n", "u"), A.par(A.gate("g", "a"), A.gate("h", A.item("q", "n"), "n"))),
    # a parameter named like the let that a header alias (c = q[k]) was declared with: the alias must keep its
    # header meaning inside the body, whatever the parameter is bound to
    A.macro("m6", ("k",), A.seq(A.gate("g", "c"), A.gate("h", A.item("q", "k"), 2.0))),
    # a register parameter named like the alias that is passed for it, indexed inside
    A.macro("m7", ("b",), A.seq(A.gate("g", A.item("b", 1)))),
    # calls an earlier macro whose parameter is called p with ANOTHER of its own parameters, and uses its own p
    # afterwards (a binding that leaks out of the inner call shows here)
    A.macro("m8", ("p", "r"), A.seq(A.gate("m", "r"), A.gate("g2", "p", "r"), A.gate("m", "p"))),
    # a register parameter indexed by another parameter
    A.macro("m9", ("r", "i"), A.seq(A.gate("g", A.item("r", "i")), A.gate("h", A.item("r", 0), "i"))),
    # parameterless macros: the only nested macro call sits inside a loop / inside a parallel block inside a loop
    A.macro("m10", (), A.seq(A.loop(2, A.seq(A.gate("m", A.item("q", 0)))))),
    A.macro("m11", (), A.par(A.gate("g", A.item("q", 2)), A.seq(A.loop("k", A.par(A.gate("m9", "a", 1)))))),
    # forwards its register parameter to a macro that indexes it by a parameter; and a body that is one loop
    A.macro("m12", ("r",), A.seq(A.loop("n", A.seq(A.gate("m9", "r", "k"))))),
    # a parameter named like the SOURCE register of a header alias (c = q[k]): the alias keeps its header meaning inside
    # the body, whatever register is passed for q
    A.macro("m13", ("q",), A.seq(A.gate("g", "c"), A.gate("h", A.item("q", 0), 2.0))),
)

LEAVES = (
    A.gate("g", A.item("q", 0)),
    A.gate("g", A.item("a", 1)),
    A.gate("h", "c", "x"),
    A.gate("m", A.item("q", 1)),
    A.gate("g", A.item("q", "k")),
    A.gate("m2", "b", 0.25),
    A.gate("g2", A.item("q", 0), A.item("b", 1)),
    A.gate("m3", "c"),
    A.gate("m4", "n", 1),
    A.gate("m5", "c", 0, "x"),
    A.gate("m6", 2),
    A.gate("h", A.item("q", "n"), "n"),  # textually identical to a statement of m5, where n is a parameter
    A.gate("m7", "b"),
    A.gate("m4", 1, 0),  # a second call of m4 with other numbers
    A.gate("m8", A.item("q", 0), "c"),
)

# second leaf menu (added later; combined with a few leaves of the first in `EXTRA_SPECS`, so that the pools of the
# first menu keep their size)
LEAVES2 = (
    A.gate("m9", "a", 1),
    A.gate("m9", "q", "k"),
    A.gate("m10"),
    A.gate("m11"),
    A.gate("m12", "b"),
    # second calls of macros that pass their parameter on to another macro, with other qubits (anything remembered per
    # call *as written* inside the body shows when the outer macro is called twice)
    A.gate("m3", A.item("q", 2)),
    A.gate("m12", "q"),
    A.gate("m13", "a"),
)


def extra_specs(tier):
    if tier == "quick":
        return [dict(max_nodes=2, leaves=LEAVES2 + (LEAVES[0], LEAVES[7])), dict(max_nodes=3, min_nodes=3, leaves=LEAVES2[:5:2], loops=("n",), subs=(None,))]
    return [dict(max_nodes=3, leaves=LEAVES2 + (LEAVES[0], LEAVES[7])), dict(max_nodes=4, min_nodes=4, leaves=LEAVES2[:5:2], loops=("n",), subs=(None,))]


# ---------------------------------------------------------------- legal nesting
def legal_stmt(s, parent, in_sub=False, in_par=False):
    k = s[0]
    if k == "gate":
        return True
    if k == "seq":
        if parent not in ("top", "par", "loopbody", "macrobody"):
            return False
        return all(legal_stmt(i, "seq", in_sub, in_par) for i in s[1])
    if k == "par":
        if parent not in ("top", "seq", "sub", "loopbody", "macrobody"):
            return False
        return all(legal_stmt(i, "par", in_sub, True) for i in s[1])
    if k == "loop":
        if parent not in ("top", "seq", "sub"):
            return False
        if s[2][0] not in ("seq", "par"):
            return False
        return legal_stmt(s[2], "loopbody", in_sub, in_par)
    if k == "sub":
        if parent not in ("top", "seq") or in_sub or in_par:
            return False
        return all(legal_stmt(i, "sub", True, in_par) for i in s[2])
    if k == "macro":
        if parent != "top" or s[3][0] not in ("seq", "par"):
            return False
        return legal_stmt(s[3], "macrobody", in_sub, in_par)
    return False


def legal(p):
    seen_body = False
    return all(legal_stmt(s, "top") for s in p[2])


def valid(p, natives=None, override=None):
    """legal nesting and every reference honourable (in the declared environment)"""
    if not legal(p):
        return False
    try:
        d = Model(p, natives).den(override, normalise=False)
    except Invalid:
        return False
    # a subcircuit reached through a macro call inside a subcircuit or parallel block is
    # nesting the grammar forbids; such programs are outside the space
    return den_nesting_ok(d)


def den_nesting_ok(d, in_sub=False, in_par=False):
    k = d[0]
    if k == "gate":
        return True
    if k == "sub":
        if in_sub or in_par:
            return False
        return all(den_nesting_ok(i, True, in_par) for i in d[2])
    if k == "seq":
        return all(den_nesting_ok(i, in_sub, in_par) for i in d[1])
    if k == "par":
        return all(den_nesting_ok(i, in_sub, True) for i in d[1])
    if k == "loop":
        return den_nesting_ok(d[2], in_sub, in_par)
    return True


# ---------------------------------------------------------------- structure grammar
def structure_rules(nleaves, loops, subs):
    R = {}
    leaves = list(range(nleaves))
    for in_sub in (False, True):
        for in_par in (False, True):
            top = ("top", in_sub, in_par)
            sq = ("seq", in_sub, in_par)
            pr = ("par", in_sub, True)
            lb = ("loopbody", in_sub, in_par)
            stmts = [
                ("gate", leaves, "leaf", None),
                ("par", [None], "many", pr),
                ("loop", list(loops), "one", lb),
            ]
            if not in_sub and not in_par:
                stmts.append(("sub", list(subs), "many", ("seq", True, in_par)))
            R[sq] = list(stmts)
            R[top] = list(stmts) + [("seq", [None], "many", sq)]
            R[lb] = [("seq", [None], "many", sq), ("par", [None], "many", pr)]
        R[("par", in_sub, True)] = [
            ("gate", leaves, "leaf", None),
            ("seq", [None], "many", ("seq", in_sub, True)),
        ]
    return R


TOP = ("top", False, False)


def tree_to_stmt(t, leaves):
    k = t[0]
    if k == "gate":
        return leaves[t[1]]
    if k in ("seq", "par"):
        return (k, tuple(tree_to_stmt(c, leaves) for c in t[2]))
    if k == "sub":
        return ("sub", t[1], tuple(tree_to_stmt(c, leaves) for c in t[2]))
    if k == "loop":
        return ("loop", t[1], tree_to_stmt(t[2], leaves))
    raise ValueError(t)


def needed_macros(body, macros=MACROS):
    """the prefix-closed set of macros the body (transitively) calls, in definition order"""
    names = {m[1] for m in macros}
    used = set()

    def scan(s):
        for node in A.walk(s):
            if node[0] == "gate" and node[1] in names:
                used.add(node[1])

    for s in body:
        scan(s)
    changed = True
    while changed:
        changed = False
        for m in macros:
            if m[1] in used:
                before = len(used)
                scan(m[3])
                changed = changed or len(used) != before
    return tuple(m for m in macros if m[1] in used)


def small_programs(max_nodes, leaves=LEAVES, loops=(2, "n"), subs=(None, "n"), header=HEADER_RICH,
                   macros=MACROS, min_nodes=0):
    """all programs whose body forest has min_nodes..max_nodes nodes"""
    g = TreeGrammar(structure_rules(len(leaves), loops, subs))
    for n in range(min_nodes, max_nodes + 1):
        for forest in g.iter_forests(n, TOP):
            body = tuple(tree_to_stmt(t, leaves) for t in forest)
            yield A.prog(header, needed_macros(body, macros) + body)


# ---------------------------------------------------------------- deviations
MACROS_BASE = MACROS[:8]  # the base programs keep the first eight macros: every macro body is a deviation site

BASE = A.prog(
    HEADER_RICH,
    MACROS_BASE
    + (
        A.gate("g", A.item("q", 0)),
        A.seq(A.gate("h", "c", "x"), A.par(A.gate("g", A.item("a", 1)), A.gate("m", A.item("q", 1)))),
        A.loop("n", A.seq(A.gate("m3", "c"))),
        A.sub("n", A.gate("g2", A.item("q", 0), A.item("b", 1)), A.loop(2, A.seq(A.gate("g", A.item("q", "k"))))),
        A.gate("m2", "b", 0.25),
    ),
)


# a second base for the thorough tier: other features next to each other (parameters as counts and indices,
# shadowing parameters, an alias captured by a parameter name, nested loops, a parallel block of macro calls)
BASE2 = A.prog(
    HEADER_RICH,
    MACROS_BASE
    + (
        A.par(A.gate("m4", 1, 0), A.seq(A.gate("g", A.item("q", 1)), A.gate("m6", 1))),
        A.loop(2, A.seq(A.loop("k", A.par(A.gate("m5", "c", 2, 0.5), A.gate("g", A.item("b", 0)))), A.gate("h", A.item("q", "n"), "n"))),
        A.sub(None, A.gate("m6", 2), A.par(A.gate("g", A.item("q", 0)), A.seq(A.gate("m", "c"), A.gate("g2", A.item("a", 1), A.item("q", "k"))))),
        A.seq(A.loop(0, A.seq(A.gate("m3", A.item("q", 2)))), A.sub(2, A.gate("m2", "a", "x"))),
    ),
)


def _paths(stmt, path=()):
    yield path, stmt
    for i, c in enumerate(A.children(stmt)):
        yield from _paths(c, path + (i,))


def body_sites(body):
    for i, s in enumerate(body):
        for path, node in _paths(s, (i,)):
            yield path, node


def replace_at(body, path, new):
    """new: a statement, or None to delete"""
    i = path[0]
    if len(path) == 1:
        if new is None:
            return body[:i] + body[i + 1:]
        return body[:i] + (new,) + body[i + 1:]
    return body[:i] + (_replace_in(body[i], path[1:], new),) + body[i + 1:]


def _replace_in(stmt, path, new):
    ch = list(A.children(stmt))
    i = path[0]
    if len(path) == 1:
        if new is None:
            del ch[i]
        else:
            ch[i] = new
    else:
        ch[i] = _replace_in(ch[i], path[1:], new)
    if stmt[0] in ("loop", "macro") and len(ch) != 1:
        raise ValueError("cannot delete the body of a loop/macro")
    return A.with_children(stmt, ch)


def single_deviations(p):
    """yield (label, program) for every single-site deviation of p (legal or not; the
    caller filters)"""
    _, header, body = p
    hnames = {h[1] for h in header if h[0] != "usepulses"}
    # ---- header
    for i, h in enumerate(header):
        if h[0] == "register" and not isinstance(h[2], str) and "sz" not in hnames:
            yield ("reg-size-let", A.prog((("let", "sz", h[2]),) + header[:i] + (("register", h[1], "sz"),) + header[i + 1:], body))
        if h[0] == "map" and len(h) == 6:
            for pos in (3, 4, 5):
                cur = h[pos]
                opts = []
                if cur is not None:
                    opts.append(None)
                if not isinstance(cur, str) and cur is not None and cur in (1, 2):
                    opts.append({1: "k", 2: "n"}[cur])
                for o in opts:
                    yield ("slice-bound", A.prog(header[:i] + (h[:pos] + (o,) + h[pos + 1:],) + header[i + 1:], body))
        if h[0] == "map" and len(h) == 3:
            yield ("whole-to-slice", A.prog(header[:i] + (h + (None, None, None),) + header[i + 1:], body))
        if h[0] == "let" and isinstance(h[2], float):
            for v in (-1.5e-07, 2.0, 1e22):
                yield ("let-value", A.prog(header[:i] + ((h[0], h[1], v),) + header[i + 1:], body))
        if i + 1 < len(header):
            yield ("swap-decl", A.prog(header[:i] + (header[i + 1], h) + header[i + 2:], body))
    if not any(h[0] == "usepulses" for h in header):
        yield ("add-usepulses", A.prog((("usepulses", "some.pulses"),) + header, body))
    # ---- body
    fresh = "mx"
    for path, node in body_sites(body):
        k = node[0]
        if k == "macro":
            continue
        in_macro = body[path[0]][0] == "macro"
        for cnt in (2, "n", 0):
            yield ("wrap-loop", A.prog(header, replace_at(body, path, A.loop(cnt, A.seq(node) if k != "seq" and k != "par" else node))))
        yield ("wrap-par", A.prog(header, replace_at(body, path, A.par(node))))
        yield ("wrap-seq", A.prog(header, replace_at(body, path, A.seq(node))))
        yield ("wrap-sub", A.prog(header, replace_at(body, path, A.sub(None, node))))
        yield ("wrap-sub-n", A.prog(header, replace_at(body, path, A.sub("n", node))))
        if not (len(path) == 2 and body[path[0]][0] in ("loop", "macro")):
            try:
                yield ("delete", A.prog(header, replace_at(body, path, None)))
            except ValueError:
                pass
        if k == "gate":
            # the same text once more: at the end of the main body and inside the first macro
            yield ("dup-top", A.prog(header, body + (node,)))
            if not in_macro and body and body[0][0] == "macro":
                m = body[0]
                blk = m[3]
                yield ("dup-in-macro", A.prog(header, (A.macro(m[1], m[2], (blk[0], blk[1] + (node,))),) + body[1:]))
            # abstract the gate into a fresh macro over its arguments
            if not in_macro and fresh not in {s[1] for s in body if s[0] == "macro"}:
                params = tuple("p%d" % j for j in range(len(node[2])))
                mac = A.macro(fresh, params, A.seq(("gate", node[1], params)))
                nb = replace_at(body, path, ("gate", fresh, node[2]))
                yield ("abstract", A.prog(header, (mac,) + nb))
            # arguments
            for j, a in enumerate(node[2]):
                alts = []
                if isinstance(a, tuple) and a[1] == "q" and a[2] == 0:
                    alts += [A.item("a", 0), A.item("b", 0)]
                if isinstance(a, tuple) and a[2] == 1:
                    alts.append(A.item(a[1], "k"))
                if isinstance(a, float):
                    alts += ["x", -a, 1e-07]
                if a == "x":
                    alts += [0.5, "n"]
                for alt in alts:
                    yield ("arg", A.prog(header, replace_at(body, path, ("gate", node[1], node[2][:j] + (alt,) + node[2][j + 1:]))))
        if k == "loop":
            for cnt in (0, 1, 3, "k"):
                if cnt != node[1]:
                    yield ("loop-count", A.prog(header, replace_at(body, path, ("loop", cnt, node[2]))))
        if k == "sub":
            for cnt in (None, 2, "k"):
                if cnt != node[1]:
                    yield ("sub-count", A.prog(header, replace_at(body, path, ("sub", cnt, node[2]))))
            yield ("unsub", A.prog(header, replace_at(body, path, ("seq", node[2]))))


def neighbourhood(base, k, natives=None):
    """all valid programs reachable from `base` by <= k single deviations, deduplicated by
    text, in BFS order (so fewer deviations first)"""
    seen = {render.text(base)}
    frontier = [base]
    yield base
    for _depth in range(k):
        nxt = []
        for p in frontier:
            for _label, q in single_deviations(p):
                t = render.text(q)
                if t in seen:
                    continue
                seen.add(t)
                if not valid(q, natives):
                    continue
                nxt.append(q)
                yield q
        frontier = nxt


def pool(spec, natives=None):
    """spec: list of dicts(max_nodes, leaves, loops, subs[, min_nodes]); deduplicated, valid"""
    seen = set()
    for sp in spec:
        for p in small_programs(**sp):
            t = render.text(p)
            if t in seen:
                continue
            seen.add(t)
            if valid(p, natives):
                yield p
