"""RefJaqal reference state-vector simulator (property C03).

Convention (little-endian, the one the property statement fixes):
  * bit i of a state index      = register qubit i
  * bit j of a gate-matrix index = the gate's j-th qubit argument

`embed` builds the dense 2^n x 2^n matrix of a gate acting on an ordered tuple of distinct
qubits entry by entry from the defining formula

    F[r, c] = U[r', c'] * [r and c agree on every qubit outside the tuple]
    r' = sum_j bit(r, t_j) * 2^j        c' = sum_j bit(c, t_j) * 2^j

It is deliberately naive (two nested loops over all index pairs, no bit tricks shared with
the implementation, no kron, no reshape) and knows nothing about jaqalpaq.  The gate matrices
come from mc.gates.SIGS (name -> (kinds, unitary function or None, busy)).
"""
import itertools

import numpy as np

from mc import gates

TOL = 1e-9


def bit(x, i):
    return (x // (2 ** i)) % 2


def embed(U, qubits, n):
    """Dense matrix of `U` acting on the ordered tuple `qubits` of an n-qubit register."""
    qubits = tuple(qubits)
    m = len(qubits)
    U = np.asarray(U, dtype=complex)
    if U.shape != (2 ** m, 2 ** m):
        raise ValueError("gate matrix %r does not fit %d qubit argument(s)" % (U.shape, m))
    if len(set(qubits)) != m:
        raise ValueError("qubit arguments must be distinct: %r" % (qubits,))
    for t in qubits:
        if not (isinstance(t, int) and 0 <= t < n):
            raise ValueError("qubit %r outside a register of size %d" % (t, n))
    dim = 2 ** n
    others = [i for i in range(n) if i not in qubits]
    F = np.zeros((dim, dim), dtype=complex)
    for r in range(dim):
        for c in range(dim):
            agree = True
            for i in others:
                if bit(r, i) != bit(c, i):
                    agree = False
            if not agree:
                continue
            rp = 0
            cp = 0
            for j, t in enumerate(qubits):
                rp += bit(r, t) * 2 ** j
                cp += bit(c, t) * 2 ** j
            F[r, c] = U[rp, cp]
    return F


def gate_matrix(name, float_args=(), sigs=None):
    """The small matrix of a native gate at its numeric arguments, or None when the gate has no
    action on the state (idle gates, gates without a unitary, prepare/measure).
    `sigs` is an alternative signature table in the format of gates.SIGS (default: gates.SIGS)."""
    kinds, fn, busy = (gates.SIGS if sigs is None else sigs)[name]
    nf = sum(1 for k in kinds if k != "q")
    if len(float_args) != nf:
        raise ValueError("%s takes %d classical argument(s), got %r" % (name, nf, float_args))
    if fn is None or busy:
        return None
    return np.asarray(fn(*float_args), dtype=complex)


_FULL = {}
_KEEP = []  # alternative tables whose id() is part of a cache key are kept alive


def full_matrix(name, qubit_tuple, float_args, n, sigs=None):
    """embed(gate_matrix(...)) with a cache (the alphabets are small); None = no action.
    The cache is per signature table (a table object must stay alive and unchanged)."""
    key = (name, tuple(qubit_tuple), tuple(float_args), n, None if sigs is None else id(sigs))
    if key not in _FULL:
        kinds = (gates.SIGS if sigs is None else sigs)[name][0]
        nq = sum(1 for k in kinds if k == "q")
        if len(key[1]) != nq:
            raise ValueError("%s takes %d qubit argument(s), got %r" % (name, nq, key[1]))
        U = gate_matrix(name, key[2], sigs)
        _FULL[key] = None if U is None else embed(U, key[1], n)
        if sigs is not None and not any(k is sigs for k in _KEEP):
            _KEEP.append(sigs)
    return _FULL[key]


def zero_state(n):
    v = np.zeros(2 ** n, dtype=complex)
    v[0] = 1
    return v


def apply(state, name, qubit_tuple, float_args, n, sigs=None):
    """State after one gate; gates without action return an equal copy."""
    state = np.asarray(state, dtype=complex)
    if state.shape != (2 ** n,):
        raise ValueError("state of shape %r for %d qubits" % (state.shape, n))
    F = full_matrix(name, qubit_tuple, float_args, n, sigs)
    if F is None:
        return state.copy()
    return F @ state


def run_sequence(n, seq, state=None, sigs=None):
    """Apply [(name, qubits, floats), ...] in order, starting from e_0."""
    v = zero_state(n) if state is None else np.asarray(state, dtype=complex)
    for name, qubits, floats in seq:
        v = apply(v, name, qubits, floats, n, sigs)
    return v


def key(state, digits=7):
    """Rounded, hashable, JSON-able fingerprint of a state vector."""
    out = []
    for z in np.asarray(state, dtype=complex):
        out.append((round(float(z.real), digits) + 0.0, round(float(z.imag), digits) + 0.0))
    return tuple(out)


# ---------------------------------------------------------------- self test
def _kron_embed(U, first, m, n):
    """Independent route for the *unpermuted adjacent* tuple (first, ..., first+m-1):
    index = hi * 2^(first+m) + g * 2^first + lo  =>  kron(I_hi, U, I_lo)."""
    lo = np.eye(2 ** first)
    hi = np.eye(2 ** (n - first - m))
    return np.kron(hi, np.kron(U, lo))


def _swap_args(U):
    """Matrix of the same 2-qubit gate with its two arguments exchanged."""
    p = [0, 2, 1, 3]
    return U[np.ix_(p, p)]


def selftest(nmax=4):
    names = [g for g in gates.SIGS if gates.SIGS[g][1] is not None]
    thetas = (0.3, -1.1)
    checked = 0
    for name in names:
        kinds = gates.SIGS[name][0]
        m = sum(1 for k in kinds if k == "q")
        nf = len(kinds) - m
        for fl in itertools.product(thetas, repeat=nf):
            U = gate_matrix(name, fl)
            assert U.shape == (2 ** m, 2 ** m)
            assert np.allclose(U.conj().T @ U, np.eye(2 ** m), atol=1e-12), "%s is not unitary" % name
            for n in range(m, nmax + 1):
                for tup in itertools.permutations(range(n), m):
                    F = embed(U, tup, n)
                    assert np.allclose(F.conj().T @ F, np.eye(2 ** n), atol=1e-12), (name, tup, n)
                    checked += 1
                    # a second, independent route where one exists
                    if all(tup[j] == tup[0] + j for j in range(m)):
                        K = _kron_embed(U, tup[0], m, n)
                        assert np.allclose(F, K, atol=1e-12), ("kron", name, tup, n)
                    # the embedding is a homomorphism: F(U) F(U) = F(U U)
                    assert np.allclose(F @ F, embed(U @ U, tup, n), atol=1e-12), ("hom", name, tup, n)
                    if m == 2:
                        G = embed(_swap_args(U), (tup[1], tup[0]), n)
                        assert np.allclose(F, G, atol=1e-12), ("swap", name, tup, n)
    # gates without action
    for name in ("N1", "I_X", "I_A3", "prepare_all"):
        assert gate_matrix(name, ()) is None
    assert gate_matrix("I_Rz", (0.3,)) is None
    # hand-computed anchors of the bit convention
    X, CX = gates.u_X(), gates.u_CX()
    v = run_sequence(2, [("X", (0,), ())])
    assert np.allclose(v, [0, 1, 0, 0])  # qubit 0 set -> index 1
    v = run_sequence(2, [("X", (1,), ())])
    assert np.allclose(v, [0, 0, 1, 0])  # qubit 1 set -> index 2
    v = run_sequence(2, [("X", (0,), ()), ("CX", (0, 1), ())])
    assert np.allclose(v, [0, 0, 0, 1])  # control q0 set -> target q1 flipped
    v = run_sequence(2, [("X", (0,), ()), ("CX", (1, 0), ())])
    assert np.allclose(v, [0, 1, 0, 0])  # control q1 clear -> nothing
    v = run_sequence(3, [("X", (2,), ()), ("CX", (2, 0), ())])
    assert np.allclose(v, np.eye(8)[5])  # control q2 set -> q0 flipped: 4 + 1
    assert np.allclose(embed(CX, (0, 1), 2), CX)
    assert not np.allclose(embed(CX, (1, 0), 2), CX)
    assert np.allclose(embed(X, (1,), 2), np.kron(X, np.eye(2)))
    # A3 on a permuted tuple: explicit index arithmetic on one entry
    A3 = gates.u_A3()
    F = embed(A3, (2, 0, 1), 3)
    # state index r = b0 + 2 b1 + 4 b2 ; gate index r' = b2 + 2 b0 + 4 b1
    for r in range(8):
        for c in range(8):
            b = [(r >> i) & 1 for i in range(3)]
            d = [(c >> i) & 1 for i in range(3)]
            assert F[r, c] == A3[b[2] + 2 * b[0] + 4 * b[1], d[2] + 2 * d[0] + 4 * d[1]]
    # idle / unitary-less gates change nothing
    s = run_sequence(3, [("H", (0,), ()), ("A2", (2, 0), (0.3,))])
    assert np.array_equal(apply(s, "I_X", (1,), (), 3), s)
    assert np.array_equal(apply(s, "N1", (1,), (), 3), s)
    return checked


if __name__ == "__main__":
    print("embeddings checked:", selftest())
