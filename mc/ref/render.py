"""AST -> Jaqal text (canonical), -> S-expression for jaqalpaq.core.circuitbuilder.build."""


def num(x):
    """A literal the Jaqal lexer reads back as the same number."""
    if isinstance(x, bool):
        raise ValueError(x)
    if isinstance(x, int):
        return str(x)
    s = repr(float(x))
    if "e" in s or "E" in s:
        m, e = s.lower().split("e")
        if "." not in m:
            m += ".0"
        return m + "e" + e
    if "." not in s:
        s += ".0"
    return s


def _atom(x):
    if x is None:
        return ""
    if isinstance(x, str):
        return x
    return num(x)


def arg_text(a):
    if isinstance(a, tuple):
        return "%s[%s]" % (a[1], _atom(a[2]))
    return _atom(a)


def header_text(h):
    k = h[0]
    if k == "usepulses":
        return "from %s usepulses *" % h[1]
    if k == "let":
        return "let %s %s" % (h[1], num(h[2]))
    if k == "register":
        return "register %s[%s]" % (h[1], _atom(h[2]))
    if k == "map":
        if len(h) == 3:
            return "map %s %s" % (h[1], h[2])
        if len(h) == 4:
            return "map %s %s[%s]" % (h[1], h[2], _atom(h[3]))
        lo, hi, st = h[3:6]
        s = "%s:%s" % (_atom(lo), _atom(hi))
        if st is not None:
            s += ":%s" % _atom(st)
        return "map %s %s[%s]" % (h[1], h[2], s)
    raise ValueError(h)


def stmt_lines(s, depth=0):
    ind = "\t" * depth
    k = s[0]
    if k == "gate":
        return [ind + " ".join((s[1],) + tuple(arg_text(a) for a in s[2]))]
    if k in ("seq", "par"):
        o, c = ("{", "}") if k == "seq" else ("<", ">")
        out = [ind + o]
        for it in s[1]:
            out += stmt_lines(it, depth + 1)
        out.append(ind + c)
        return out
    if k == "sub":
        head = "subcircuit " + ("" if s[1] is None else _atom(s[1]) + " ") + "{"
        out = [ind + head]
        for it in s[2]:
            out += stmt_lines(it, depth + 1)
        out.append(ind + "}")
        return out
    if k == "loop":
        body = stmt_lines(s[2], depth)
        body[0] = ind + "loop %s " % _atom(s[1]) + body[0].lstrip("\t")
        return body
    if k == "macro":
        body = stmt_lines(s[3], depth)
        body[0] = ind + " ".join(("macro", s[1]) + tuple(s[2])) + " " + body[0].lstrip("\t")
        return body
    raise ValueError(s)


def text(p):
    _, header, body = p
    lines = [header_text(h) for h in header]
    for s in body:
        lines += stmt_lines(s)
    return "\n".join(lines) + "\n"


def oneline(p):
    """Compact single-line rendering (for evidence samples and messages)."""
    return text(p).replace("\t", "").replace("\n", "; ").rstrip("; ")


# ---------------------------------------------------------------- S-expressions
def _sarg(a):
    if isinstance(a, tuple):
        return ("array_item", a[1], a[2])
    return a


def sexpr_stmt(s):
    k = s[0]
    if k == "gate":
        return ("gate", s[1]) + tuple(_sarg(a) for a in s[2])
    if k == "seq":
        return ("sequential_block",) + tuple(sexpr_stmt(i) for i in s[1])
    if k == "par":
        return ("parallel_block",) + tuple(sexpr_stmt(i) for i in s[1])
    if k == "sub":
        return ("subcircuit_block", "" if s[1] is None else s[1]) + tuple(sexpr_stmt(i) for i in s[2])
    if k == "loop":
        return ("loop", s[1], sexpr_stmt(s[2]))
    if k == "macro":
        return ("macro", s[1]) + tuple(s[2]) + (sexpr_stmt(s[3]),)
    raise ValueError(s)


def sexpr_header(h):
    k = h[0]
    if k == "usepulses":
        return ("usepulses", h[1], "*")
    if k == "let":
        return ("let", h[1], h[2])
    if k == "register":
        return ("register", h[1], h[2])
    if k == "map":
        return h
    raise ValueError(h)


def sexpr(p):
    _, header, body = p
    return ("circuit",) + tuple(sexpr_header(h) for h in header) + tuple(sexpr_stmt(s) for s in body)


def normalise_sexpr(x):
    """Parser output (lists, deques, Identifier objects) -> plain nested tuples comparable
    with sexpr()."""
    if isinstance(x, (list, tuple)) and not type(x).__name__ == "Identifier":
        return tuple(normalise_sexpr(v) for v in x)
    if type(x).__name__ == "Identifier":
        return str(x)
    if type(x).__name__ == "deque":
        return tuple(normalise_sexpr(v) for v in x)
    return x
