#!/venv/bin/python
"""setup_cmd: nothing to build; verifies the harness binds to /repo/src and that the
reference model's self-consistency tests pass."""
import os, sys
HERE = os.path.dirname(os.path.dirname(os.path.abspath(__file__)))
sys.path.insert(0, HERE)
os.chdir(HERE)
from mc import impl  # noqa
print("jaqalpaq bound to", impl.SRC)
import glob, importlib
failed = 0
for f in sorted(glob.glob(os.path.join(HERE, "selftest", "test_*.py"))):
    name = "selftest." + os.path.basename(f)[:-3]
    try:
        m = importlib.import_module(name)
        m.main()
        print("ok  ", name)
    except Exception as e:
        import traceback; traceback.print_exc()
        print("FAIL", name, e)
        failed += 1
sys.exit(1 if failed else 0)
