"""Model self-consistency (run by setup_cmd):
 1. den by value-level substitution (mc/ref/meaning.py) == den by syntactic inlining of macros followed
    by evaluation of a macro-free program, on the whole small-program pool and the base neighbourhood;
 2. the symbolic form is invariant under permutation of independent declarations;
 3. the reference simulator, recogniser and execution model pass their own self-tests;
 4. every check's selfcheck() passes.
"""
import itertools

from mc.ref import ast as A, universe as U, render
from mc.ref.meaning import Model, Invalid


def subst_arg(a, b):
    if isinstance(a, tuple):
        _, name, idx = a
        base = b.get(name, name)
        if isinstance(idx, str):
            idx = b.get(idx, idx)
        if not isinstance(base, str):
            raise Invalid("index-non-register", "inline: %r[%r]" % (base, idx))
        if isinstance(idx, tuple):
            raise Invalid("not-a-number", "inline")
        return ("item", base, idx)
    if isinstance(a, str):
        return b.get(a, a)
    return a


def inline(s, b, macros, depth=0):
    k = s[0]
    if k == "gate":
        args = tuple(subst_arg(a, b) for a in s[2])
        m = macros.get(s[1])
        if m is not None:
            params, block = m
            if len(params) != len(args):
                raise Invalid("arity")
            if depth > 30:
                raise Invalid("recursion")
            return inline(block, dict(zip(params, args)), macros, depth + 1)
        return ("gate", s[1], args)
    if k in ("seq", "par"):
        return (k, tuple(inline(i, b, macros, depth) for i in s[1]))
    if k == "sub":
        c = b.get(s[1], s[1]) if isinstance(s[1], str) else s[1]
        return ("sub", c, tuple(inline(i, b, macros, depth) for i in s[2]))
    if k == "loop":
        c = b.get(s[1], s[1]) if isinstance(s[1], str) else s[1]
        return ("loop", c, inline(s[2], b, macros, depth))
    raise ValueError(s)


def den_by_inlining(p):
    macros = {}
    body = []
    for s in p[2]:
        if s[0] == "macro":
            macros[s[1]] = (s[2], s[3])
        else:
            body.append(inline(s, {}, dict(macros)))
    return Model(("prog", p[1], tuple(body))).den()


def main():
    n = 0
    spec = [dict(max_nodes=2, leaves=U.LEAVES), dict(max_nodes=3, min_nodes=3, leaves=U.LEAVES[::2])]
    progs = itertools.chain(U.pool(spec), U.neighbourhood(U.BASE, 1))
    for p in progs:
        a = Model(p).den()
        try:
            b = den_by_inlining(p)
        except Invalid as e:  # the inliner is stricter about integral floats; must not happen on valid programs
            raise AssertionError("inliner rejects a valid program: %s\n%s" % (e, render.text(p)))
        assert a == b, "two denotations differ for\n%s\n%r\n%r" % (render.text(p), a, b)
        n += 1
    assert n > 1000, n
    # declaration order does not matter to sym
    h = U.HEADER_RICH
    p1 = A.prog(h, U.MACROS + (U.LEAVES[0], U.LEAVES[2]))
    p2 = A.prog((h[1], h[0], h[2]) + h[3:], U.MACROS + (U.LEAVES[0], U.LEAVES[2]))
    assert Model(p1).sym() == Model(p2).sym()
    from mc.ref import sim, syntax
    sim.selftest(3)
    syntax.selfcheck(maxlen=4, full_maxlen=3)
    import glob, os, importlib
    here = os.path.dirname(os.path.dirname(os.path.abspath(__file__)))
    for f in sorted(glob.glob(os.path.join(here, "checks", "c[0-9][0-9].py"))):
        mod = importlib.import_module("checks." + os.path.basename(f)[:-3])
        mod.CHECK.selfcheck()
    print("model self-consistency: %d programs, all selfchecks passed" % n)


if __name__ == "__main__":
    main()
