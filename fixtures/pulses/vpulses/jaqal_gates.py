"""Gate definitions of the fixture pulse package (shape as in /repo/tests/core/gpf2).

Only jaqalpaq itself is imported, so the module can be loaded by the library's own
import machinery in a process that knows nothing about the harness.
"""
import numpy as np

from jaqalpaq.core import GateDefinition, Parameter, ParamType
from jaqalpaq.core.gatedef import BusyGateDefinition

_Q = ParamType.QUBIT
_F = ParamType.FLOAT


def _x():
    return np.array([[0, 1], [1, 0]], dtype=complex)


def _h():
    return np.array([[1, 1], [1, -1]], dtype=complex) / np.sqrt(2)


def _rz(theta):
    return np.array([[np.exp(-0.5j * theta), 0], [0, np.exp(0.5j * theta)]], dtype=complex)


def _cx():
    m = np.zeros((4, 4), dtype=complex)
    m[0, 0] = m[2, 2] = 1
    m[1, 3] = m[3, 1] = 1
    return m


_DEFS = [
    BusyGateDefinition("prepare_all"),
    BusyGateDefinition("measure_all"),
    GateDefinition("X", [Parameter("q", _Q)], ideal_unitary=_x),
    GateDefinition("H", [Parameter("q", _Q)], ideal_unitary=_h),
    GateDefinition("Rz", [Parameter("q", _Q), Parameter("theta", _F)], ideal_unitary=_rz),
    GateDefinition("CX", [Parameter("c", _Q), Parameter("t", _Q)], ideal_unitary=_cx),
    # short names inside the character alphabet of C16 (a, g) so that enumerated strings
    # can call a native gate when pulses are loaded from this module
    GateDefinition("a", [Parameter("q", _Q)], ideal_unitary=_x),
    GateDefinition("g", [Parameter("q", _Q)], ideal_unitary=_h),
]

ALL_GATES = {d.name: d for d in _DEFS}
