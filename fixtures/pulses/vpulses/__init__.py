"""vpulses - a tiny pulse-definition package for the usepulses cases of the checks.

`from vpulses usepulses *`   needs /verif/fixtures/pulses on sys.path        (absolute)
`from .vpulses usepulses *`  needs import_path=/verif/fixtures/pulses        (relative)
No module called `nopulses` exists next to this package (the ImportError case).
"""
