"""vp2: G takes a qubit and a float; L only exists here."""
import numpy as np
from jaqalpaq.core import GateDefinition, Parameter, ParamType
from jaqalpaq.core.gatedef import BusyGateDefinition

_Q, _F = ParamType.QUBIT, ParamType.FLOAT


def _rz(theta):
    return np.array([[np.exp(-0.5j * theta), 0], [0, np.exp(0.5j * theta)]], dtype=complex)


def _x():
    return np.array([[0, 1], [1, 0]], dtype=complex)


_DEFS = [
    BusyGateDefinition("prepare_all"),
    BusyGateDefinition("measure_all"),
    GateDefinition("X", [Parameter("q", _Q)], ideal_unitary=_x),
    GateDefinition("G", [Parameter("q", _Q), Parameter("theta", _F)], ideal_unitary=_rz),
    GateDefinition("L", [Parameter("q", _Q)], ideal_unitary=_x),
]
ALL_GATES = {d.name: d for d in _DEFS}
