"""vp1 - pulse fixture for C14 (gate G has a different signature in vp1 and vp2)."""
