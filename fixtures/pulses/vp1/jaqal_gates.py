"""vp1: G takes one qubit; K only exists here."""
import numpy as np
from jaqalpaq.core import GateDefinition, Parameter, ParamType
from jaqalpaq.core.gatedef import BusyGateDefinition

_Q, _F = ParamType.QUBIT, ParamType.FLOAT


def _x():
    return np.array([[0, 1], [1, 0]], dtype=complex)


_DEFS = [
    BusyGateDefinition("prepare_all"),
    BusyGateDefinition("measure_all"),
    GateDefinition("X", [Parameter("q", _Q)], ideal_unitary=_x),
    GateDefinition("G", [Parameter("q", _Q)], ideal_unitary=_x),
    GateDefinition("K", [Parameter("q", _Q)], ideal_unitary=_x),
]
ALL_GATES = {d.name: d for d in _DEFS}
