#!/usr/bin/env python3
"""Rewrite the catch matrix of DESIGN.md section 14 from seeded/*/meta.json."""
import glob, json, os, re
rows = []
for f in sorted(glob.glob('/verif/seeded/*/meta.json')):
    m = json.load(open(f))
    am = m.get('author_meta', {})
    caught = [k for k, v in m.get('checks', {}).items() if v.get('rc') == 1 and v.get('violations', 0) > 0]
    missed = [k for k, v in m.get('checks', {}).items() if not (v.get('rc') == 1 and v.get('violations', 0) > 0)]
    first = next((v.get('first', '') for k, v in m.get('checks', {}).items() if k in caught), '')
    clause = re.sub(r'^failed clause (\S+).*', r'\1', first) if first else ''
    ok = m.get('tests_pass') and m.get('demo_without_change_rc') == 0 and m.get('demo_with_change_rc') not in (0, None)
    rows.append((m['name'], m['property'], ", ".join(os.path.basename(x) for x in am.get('files', [])), (am.get('summary', '') or '')[:160].replace('|', '/'),
                 "yes" if ok else "NO", ", ".join(caught) or "-", clause, ", ".join(missed) or "-", m.get('strengthened', '')))
lines = ["| seeded change | property | file | what it does | confirmed (tests pass, demo fails only with it) | caught by (quick) | first failing clause | run but silent | check strengthened for it |",
         "|---|---|---|---|---|---|---|---|---|"]
for r in rows:
    lines.append("| " + " | ".join(r) + " |")
table = "\n".join(lines)
p = '/verif/DESIGN.md'
s = open(p).read()
a, b = "<!-- SEEDTABLE-BEGIN -->", "<!-- SEEDTABLE-END -->"
if a in s:
    s = s[:s.index(a) + len(a)] + "\n" + table + "\n" + s[s.index(b):]
    open(p, 'w').write(s)
print(table)
