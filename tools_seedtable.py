#!/usr/bin/env python3
"""Rewrite the catch matrix of DESIGN.md section 14 from seeded/*/meta.json."""
import glob, json, os, re
STRENGTHENED = {
    "C02_1": "C02 Space 4: comment bodies with runs of '*', pairs of comments",
    "C02_2": "C02 Space 5: literal variants (0, -0, +2, ...) in every literal position",
    "C02_3": "caught by C16's call histories (header parse then full parse of one text); C02 itself parses each text once",
    "C03_2": "C03: loop counts {0,1,2,3}, let-valued counts overridden to 0",
    "C03_3": "C03: embeddings reprepare / reprepare-loop",
    "C03_4": "C03: embeddings alttable / alttable-rev (two native tables in both orders)",
    "C04_2": "universe: macro m7 (register parameter named like the alias passed)",
    "C04_4": "universe: macro m8 (inner call binds the same parameter name crosswise, outer parameter used afterwards)",
    "C05_1": "C05: the caller's override dictionary must be unchanged",
    "C05_3": "C05: open-ended aliases over a let-sized register with size overrides",
    "C06_2": "framework: history-dependent failures confirmed by replaying the shard prefix in a fresh interpreter",
    "C06_4": "C06: override that moves the inner link of a chain whose outer link is literal",
    "C07_2": "universe: macro m6 (parameter named like the let of a header alias); caught through C13's used-qubit oracle",
    "C07_3": "C07: fill_in_map step + an unshadowed header alias inside the shadowing macro",
    "C07_4": "universe: macro m7; caught by C04 (C07's probes do not pass a register under its own name)",
    "C08_4": "caught by C10's parser-flag clause (parse(expand_let_map, override_dict) vs composition)",
    "C09_1": "C09: subcircuit inside a loop inside a macro reached through another macro",
    "C09_3": "caught by C11's snapshot (input circuit modified)",
    "C10_3": "C10: the caller's override dictionary must be unchanged",
    "C11_1": "C11: a caller's gate table without the bounding gates",
    "C11_2": "C11: integral float literal as macro argument in the base program",
    "C11_4": "caught by C06 (same alias name over different slices in one process)",
    "C12_1": "C12: wrapper loop c < { .. } >",
    "C12_4": "caught by C04/C10 (empty subcircuit block must survive expand_macros); the default run pipeline is unaffected",
    "C13_1": "universe: a second call of m4 with other numbers, m6 with two arguments",
    "C13_2": "C13: busy gates inside a parallel branch",
    "C13_3": "C13: neighbouring cases use different register names",
    "C13_4": "C13: a zero-count loop as a parallel branch",
    "C14_1": "C14: reversed slices starting at size / stopping below -1",
    "C14_2": "C14: register size (literal / let / override) against an index used",
    "C14_4": "C14: reload family (relative pulse file rewritten between two parses)",
    "C16_1": "C16: module-name family for usepulses, sys.modules empty-key clause",
    "C16_2": "C16: calls combining usepulses with inject_pulses in the history alphabet",
    "C16_3": "C16: numeric-literal family (overflowing literals and override values)",
    "C17_3": "framework: a case whose two in-process runs disagree is reported as state-dependent",
    "C17_4": "C17: boundary counts 0 for loops and subcircuits",
    "C18_3": "C18: a FLOAT-kinded name without a value does not fit INT",
    "C18_4": "C18: gates without qubit parameters / with untyped parameters in the idle and stretch pools",
    "C20_1": "C01: two statements in one program differing in one number (hash coincidences); C20 pool gets such programs too",
    "C01_4": "C01: one pulse module imported twice",
    "C01_5": "C01: builder route with numpy.float64 scalars",
    "C02_5": "C02 Space 6: one comment (incl. \\r \\v \\f FS GS RS NEL LS PS bodies) in front of the first offending token of every near miss",
    "C02_7": "C02: header-only parse before the full parse of each pool program (and C16 call header-full)",
    "C03_5": "C03: wide registers (one gate on every ordered tuple of 4-6 qubits, two gates on 4)",
    "C03_8": "caught by C18 (keyword call in another order); C03 builds its programs from text",
    "C04_5": "universe: macro m9 (register parameter indexed by another parameter)",
    "C04_6": "universe: parameterless macros m10 / m11 whose nested calls sit inside loops",
    "C06_5": "framework: a history-dependent failure is replayed with the shards its worker ran before",
    "C07_8": "universe: macro m13 (parameter named like the source register of a header alias); caught by C04",
    "C08_5": "C08: the same nest with textually identical subcircuits",
    "C08_7": "C15: a second job of the same backend object; caught by C15",
    "C09_6": "C09: caller's definitions under the standard names (situation by-def-std)",
    "C09_7": "C09: a later circuit in which this program's macro names are plain gates",
    "C11_8": "C11: the caller's table of the nb variant has a gate with an INT parameter, called at top level with 2.0",
    "C13_5": "universe: second calls m3 q[2] / m12 q of macros that pass their parameter on",
    "C13_6": "C13: branches that name qubits through whole-register aliases",
    "C14_5": "C14: positions size-vs-single, size-vs-slice, start-vs-single",
    "C14_6": "C14: wrong-way slices; an index into an empty alias is judged out of range",
    "C15_5": "C15: wide registers (5-10 qubits, boundary outcomes)",
    "C15_6": "C15: one job executed three times, every result judged again after each execution",
    "C15_8": "C15: gate lists written from the highest qubit down",
    "C16_5": "C16: calls import-first / hdr-after-body (errors raised inside grammar actions)",
    "C16_6": "C16: seeds one replacement away from aliasing a let",
    "C16_7": "C16: emulations sharing one gate table object over different alias slices",
    "C16_8": "C16 Space 3: long layout runs in a child process under a wall-clock limit",
    "C17_7": "C17: anonymous lets of equal value (1, 1) in the names family",
    "C18_7": "C18: definitions called once before stretched_gates (flag bit 1)",
    "C20_7": "C20: pool gets C07's scope-probe programs",
}
rows = []
for f in sorted(glob.glob('/verif/seeded/*/meta.json')):
    m = json.load(open(f))
    am = m.get('author_meta', {})
    caught = [k for k, v in m.get('checks', {}).items() if v.get('rc') == 1 and v.get('violations', 0) > 0]
    missed = [k for k, v in m.get('checks', {}).items() if not (v.get('rc') == 1 and v.get('violations', 0) > 0)]
    first = next((v.get('first', '') for k, v in m.get('checks', {}).items() if k in caught), '')
    clause = re.sub(r'^failed clause (\S+).*', r'\1', first) if first else ''
    ok = m.get('tests_pass') and m.get('demo_without_change_rc') == 0 and m.get('demo_with_change_rc') not in (0, None)
    rows.append((m['name'], m['property'], ", ".join(os.path.basename(x) for x in am.get('files', [])), (am.get('summary', '') or '')[:160].replace('|', '/'),
                 "yes" if ok else "NO", ", ".join(caught) or "-", clause, ", ".join(missed) or "-", STRENGTHENED.get(m['name'], '')))
lines = ["| seeded change | property | file | what it does | confirmed (tests pass, demo fails only with it) | caught by (quick) | first failing clause | run but silent | check strengthened for it |",
         "|---|---|---|---|---|---|---|---|---|"]
for r in rows:
    lines.append("| " + " | ".join(r) + " |")
table = "\n".join(lines)
p = '/verif/DESIGN.md'
s = open(p).read()
a, b = "<!-- SEEDTABLE-BEGIN -->", "<!-- SEEDTABLE-END -->"
if a in s:
    s = s[:s.index(a) + len(a)] + "\n" + table + "\n" + s[s.index(b):]
    open(p, 'w').write(s)
print(table)
