#!/bin/bash
# usage: tools_runall.sh [quick|thorough] [seed]   - runs every registered check, prints one line each
tier=${1:-quick}; seed=${2:-0}
cd "$(dirname "$(readlink -f "$0")")"
for id in $(python3 -c "import json; print(' '.join(c['property_id'] for c in json.load(open('MANIFEST.json'))['checks']))"); do
  s=$(date +%s)
  out=$(VERIF_SEED=$seed timeout 7200 /venv/bin/python run.py $id --tier $tier 2>&1); rc=$?
  e=$(date +%s)
  echo "$id rc=$rc $((e-s))s $(echo "$out" | grep -c '^KNOWN-FINDING') known; $(echo "$out" | grep -E "^C[0-9]+ tier" | cut -c1-150)"
  if [ $rc -ne 0 ]; then echo "$out" | tail -5; fi
done
